-------------------------------- MODULE Token --------------------------------
(***************************************************************************)
(* The native ONT / ONG token contracts of ontio/ontology                  *)
(*   smartcontract/service/native/ont/{ont,utils}.go, ong/ong.go,          *)
(*   core/states/native_token_balance.go                                   *)
(* One action per public method family; the V1 and V2 entry points         *)
(* (transfer/transferV2, approve/approveV2, transferFrom/transferFromV2)   *)
(* decode different argument encodings and then run the same code          *)
(* (doTransfer, doApprove/OntApprove*, TransferedFrom), so they are the    *)
(* same action with a `ver` argument that only restricts the amounts.      *)
(*                                                                         *)
(* Amounts are integers in "model units": one V1 unit (1 ONT, 10^-9 ONG)   *)
(* is SF model units, V2 amounts (9 more decimals) are arbitrary naturals  *)
(* (the harness maps a model unit to 10^9/SF of the smallest real unit).   *)
(* `Huge` stands for an amount above the total supply of the token.        *)
(*                                                                         *)
(* Unbound ONG (grantOng): an ONT transfer/transferFrom first approves the *)
(* accrued ONG from the ONT contract's ONG balance (account OC) to each    *)
(* party; after the holder-unbound deadline (phase "post") it also moves   *)
(* the whole allowance to the party.  The accrued amount depends on block  *)
(* times and is left free here (argument m: party -> amount or -1 = no     *)
(* grant because the party's ONT balance was 0 / same timestamp).          *)
(*                                                                         *)
(* Property C06: Conserved, NonNeg, DebitAuthorized, AllowanceRespected,   *)
(* FailedCallIsNoOp.                                                       *)
(***************************************************************************)
EXTENDS Integers, Sequences, FiniteSets, TLC

CONSTANTS Users,       \* user accounts (strings)
          OC,          \* the ONT contract's address as an ONG holder (string)
          ActTokens,   \* tokens whose methods are called: subset of {"ont", "ong"}
          SF,          \* model units per V1 unit
          AmtsV1,      \* amounts offered to V1 methods (multiples of SF, or Huge)
          AmtsV2,      \* amounts offered to V2 methods
          Huge,        \* an amount above the total supply (larger than every balance)
          SignerSets,  \* the signer sets (sets of users) a call may carry
          FromOC,      \* TRUE: transferFrom may name OC as `from` (claiming unbound ONG)
          MaxStates,   \* max number of states in one transfer call (1 or 2)
          Phases,      \* subset of {"pre", "post"}
          GrantChoices,\* per-party grant arguments offered: subset of {-1} \cup Nat
          InitBal,     \* [token -> [account -> Nat]]
          InitAllow,   \* [token -> [account -> [account -> Nat]]]   owner -> spender
          MaxOps

VARIABLES bal,      \* bal[t][a]
          allow,    \* allow[t][owner][spender]
          phase,    \* "pre": block time <= holder-unbound deadline; "post": after it (monotone)
          nops,
          act       \* history variable: last call with arguments and outcome

vars == <<bal, allow, phase, nops, act>>
view == <<bal, allow, phase>>

Tokens == {"ont", "ong"}
Accounts == Users \cup {OC}

RECURSIVE SumOver(_, _)
SumOver(f, S) == IF S = {} THEN 0 ELSE LET x == CHOOSE y \in S : TRUE IN f[x] + SumOver(f, S \ {x})
Total(t, b) == SumOver(b[t], Accounts)

PhaseLeq(p, q) == p = q \/ (p = "pre" /\ q = "post")

Init == /\ bal = InitBal /\ allow = InitAllow
        /\ phase = "pre"
        /\ nops = 0
        /\ act = [name |-> "Init"]

Step(a, ph) == /\ nops < MaxOps /\ nops' = nops + 1 /\ act' = a
               /\ ph \in Phases /\ PhaseLeq(phase, ph) /\ phase' = ph

(************************* grantOng (ONT calls only) ***********************)
\* b, al: the full bal / allow after the ONT movement; parties: users whose ONT balance moved;
\* m[x] = -1: no grant for x; m[x] = g >= 0: g units accrued.
\* result: [ok, b, al]; not ok = the ONT contract's ONG balance cannot pay (whole call fails)
Granted(parties, m) == {x \in parties : m[x] >= 0}
DoGrants(b, al, parties, ph, m) ==
    LET gp == Granted(parties, m) IN
    IF ph = "pre"
    THEN [ok |-> TRUE, b |-> b,
          al |-> [al EXCEPT !["ong"][OC] = [x \in Accounts |-> IF x \in gp THEN @[x] + m[x] ELSE @[x]]]]
    ELSE LET amt == [x \in Accounts |-> IF x \in gp THEN al["ong"][OC][x] + m[x] ELSE 0]
             moved == SumOver(amt, Accounts)
         IN IF b["ong"][OC] < moved
            THEN [ok |-> FALSE, b |-> b, al |-> al]
            ELSE [ok |-> TRUE,
                  b |-> [b EXCEPT !["ong"] = [x \in Accounts |-> IF x = OC THEN @[x] - moved ELSE @[x] + amt[x]]],
                  al |-> [al EXCEPT !["ong"][OC] = [x \in Accounts |-> IF x \in gp THEN 0 ELSE @[x]]]]

(******************************* transfer **********************************)
\* doTransfer: the states are applied in order on the transaction cache; a zero amount is skipped,
\* an amount above the supply, a missing witness of `from` or an insufficient balance fails the call.
RECURSIVE ApplySts(_, _, _)
ApplySts(b, sts, signers) ==
    IF sts = <<>> THEN [ok |-> TRUE, b |-> b]
    ELSE LET s == Head(sts) IN
         IF s.v = 0 THEN ApplySts(b, Tail(sts), signers)
         ELSE IF s.v = Huge \/ s.from \notin signers \/ b[s.from] < s.v THEN [ok |-> FALSE, b |-> b]
         ELSE LET b1 == [b EXCEPT ![s.from] = @ - s.v]
                  b2 == [b1 EXCEPT ![s.to] = @ + s.v]
              IN ApplySts(b2, Tail(sts), signers)

PartiesOf(sts) == UNION {{sts[i].from, sts[i].to} : i \in {j \in DOMAIN sts : sts[j].v # 0}}

Transfer(t, ver, sts, signers, ph, m) ==
    LET r == ApplySts(bal[t], sts, signers)
        b1 == [bal EXCEPT ![t] = r.b]
        g == IF t = "ont" /\ r.ok THEN DoGrants(b1, allow, PartiesOf(sts), ph, m)
             ELSE [ok |-> r.ok, b |-> b1, al |-> allow]
        ok == r.ok /\ g.ok
    IN /\ Step([name |-> "Transfer", t |-> t, ver |-> ver, sts |-> sts, signers |-> signers, ph |-> ph, ok |-> ok], ph)
       /\ (t # "ont" \/ ~r.ok) => \A x \in DOMAIN m : m[x] = -1     \* no grant arguments where no grant happens
       /\ \A x \in DOMAIN m : x \notin PartiesOf(sts) => m[x] = -1
       /\ bal' = IF ok THEN g.b ELSE bal
       /\ allow' = IF ok THEN g.al ELSE allow

(******************************** approve **********************************)
\* OntApprove(V2) / ong.doApprove: amount above supply or missing witness of `from` fails; otherwise
\* the allowance is overwritten (no balance check, no grant).
Approve(t, ver, from, to, v, signers, ph) ==
    LET ok == v # Huge /\ from \in signers IN
    /\ Step([name |-> "Approve", t |-> t, ver |-> ver, from |-> from, to |-> to, v |-> v, signers |-> signers, ph |-> ph, ok |-> ok], ph)
    /\ allow' = IF ok THEN [allow EXCEPT ![t][from][to] = v] ELSE allow
    /\ UNCHANGED bal

(****************************** transferFrom *******************************)
\* OntTransferFrom(V2) / ong.doTransferFrom -> TransferedFrom: zero amount returns without error and
\* without effect; above supply fails; the sender must witness; the allowance from->sender and the
\* balance of `from` must cover the amount; allowance and balance are decreased, `to` is credited.
TransferFrom(t, ver, sender, from, to, v, signers, ph, m) ==
    LET pass == v # 0 /\ v # Huge /\ sender \in signers /\ allow[t][from][sender] >= v /\ bal[t][from] >= v
        al1 == [allow EXCEPT ![t][from][sender] = @ - v]
        b0 == [bal EXCEPT ![t][from] = @ - v]
        b1 == [b0 EXCEPT ![t][to] = @ + v]
        g == IF t = "ont" /\ pass THEN DoGrants(b1, al1, {from, to}, ph, m)
             ELSE [ok |-> TRUE, b |-> b1, al |-> al1]
        ok == v = 0 \/ (pass /\ g.ok)
    IN /\ Step([name |-> "TransferFrom", t |-> t, ver |-> ver, sender |-> sender, from |-> from, to |-> to, v |-> v,
                signers |-> signers, ph |-> ph, ok |-> ok], ph)
       /\ (t # "ont" \/ ~pass) => \A x \in DOMAIN m : m[x] = -1
       /\ \A x \in DOMAIN m : x \notin {from, to} => m[x] = -1
       /\ bal' = IF pass /\ g.ok THEN g.b ELSE bal
       /\ allow' = IF pass /\ g.ok THEN g.al ELSE allow

(********************************* next ************************************)
Amts(ver) == IF ver = 1 THEN AmtsV1 ELSE AmtsV2
StateRecs(ver) == [from : Users, to : Users, v : Amts(ver)]
StateSeqs(ver) == UNION {[1..n -> StateRecs(ver)] : n \in 1..MaxStates}
GrantArgs == [Users -> GrantChoices]
Owners == IF FromOC THEN Accounts ELSE Users

Next == \/ \E t \in ActTokens, ver \in {1, 2}, signers \in SignerSets, ph \in Phases :
             \/ \E sts \in StateSeqs(ver), m \in GrantArgs : Transfer(t, ver, sts, signers, ph, m)
             \/ \E from \in Users, to \in Users, v \in Amts(ver) : Approve(t, ver, from, to, v, signers, ph)
             \/ \E sender \in Users, from \in (IF t = "ong" THEN Owners ELSE Users), to \in Users, v \in Amts(ver), m \in GrantArgs :
                    TransferFrom(t, ver, sender, from, to, v, signers, ph, m)

Spec == Init /\ [][Next]_vars

(******************************* properties ********************************)
TypeOK == /\ \A t \in Tokens, a \in Accounts : bal[t][a] \in Nat
          /\ \A t \in Tokens, a \in Accounts, s \in Accounts : allow[t][a][s] \in Nat
\* C06: no balance (or allowance) becomes negative
NonNeg == \A t \in Tokens, a \in Accounts : bal[t][a] >= 0 /\ \A s \in Accounts : allow[t][a][s] >= 0
\* C06: the sum of all balances of each token is unchanged
Conserved == \A t \in Tokens : Total(t, bal) = Total(t, InitBal)

Debited(t, a) == bal[t][a] - bal'[t][a]
IsOntCall == act'.name \in {"Transfer", "TransferFrom"} /\ act'.t = "ont"
\* C06: a debit needs the witness of the debited account, or spends an allowance the account granted
\* to the witnessing sender and never more than it; the only other debit is accrued ONG leaving the
\* ONT contract's ONG balance during an ONT call (a transfer between holders)
DebitAuthorizedStep ==
    \A t \in Tokens, a \in Accounts : Debited(t, a) > 0 =>
          \/ a \in act'.signers /\ act'.name = "Transfer" /\ act'.t = t
          \/ /\ act'.name = "TransferFrom" /\ act'.t = t /\ act'.from = a /\ act'.sender \in act'.signers
             /\ Debited(t, a) <= allow[t][a][act'.sender]
             /\ allow[t][a][act'.sender] - allow'[t][a][act'.sender] = Debited(t, a)
          \/ a = OC /\ t = "ong" /\ IsOntCall
DebitAuthorized == [][DebitAuthorizedStep]_vars
\* C06: allowances change only by approve of the witnessing owner, by being spent, or by an ONG grant
AllowanceRespectedStep ==
    \A t \in Tokens, a \in Accounts, s \in Accounts : allow'[t][a][s] # allow[t][a][s] =>
          \/ act'.name = "Approve" /\ act'.t = t /\ act'.from = a /\ act'.to = s /\ a \in act'.signers
          \/ act'.name = "TransferFrom" /\ act'.t = t /\ act'.from = a /\ act'.sender = s
             /\ allow'[t][a][s] < allow[t][a][s]
          \/ a = OC /\ t = "ong" /\ IsOntCall
AllowanceRespected == [][AllowanceRespectedStep]_vars
\* C06: a failed call leaves every balance and allowance untouched
FailedCallIsNoOpStep == nops' # nops /\ ~act'.ok => bal' = bal /\ allow' = allow
FailedCallIsNoOp == [][FailedCallIsNoOpStep]_vars
\* an ONT call moves ONG only out of the ONT contract's balance, an ONG call moves no ONT
CrossTokenStep == nops' # nops =>
                   /\ act'.t = "ong" => bal'["ont"] = bal["ont"] /\ allow'["ont"] = allow["ont"]
                   /\ act'.t = "ont" => \A a \in Users : bal'["ong"][a] >= bal["ong"][a]
CrossToken == [][CrossTokenStep]_vars
\* the supply of each token is unchanged by every step (the inductive form of Conserved)
ConservedStep == \A t \in Tokens : Total(t, bal') = Total(t, bal)

State == [bal |-> bal, allow |-> allow, phase |-> phase]
=============================================================================
