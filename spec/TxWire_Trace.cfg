SPECIFICATION TSpec
CONSTANTS
  Cases = {}
  MaxTxSize = 1048576
CONSTRAINT HW
POSTCONDITION Accepted
CHECK_DEADLOCK FALSE
