SPECIFICATION Spec
CONSTANTS
  CksTab <- TabGen
  Cases <- CasesT
PROPERTIES AllOK
ACTION_CONSTRAINT Row
CHECK_DEADLOCK FALSE
