SPECIFICATION Spec
CONSTANTS
  CksTab <- TabGen
  Cases <- CasesT
PROPERTIES AllOK Pure
ACTION_CONSTRAINT Row
CHECK_DEADLOCK FALSE
