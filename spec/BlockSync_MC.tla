---------------------------- MODULE BlockSync_MC ----------------------------
EXTENDS BlockSync, Json
P2 == {"p1", "p2"}
P3 == {"p1", "p2", "p3"}
Perms2 == {<<"p1", "p2">>, <<"p2", "p1">>}
Perms3 == {<<"p1", "p2", "p3">>, <<"p1", "p3", "p2">>, <<"p2", "p1", "p3">>,
           <<"p2", "p3", "p1">>, <<"p3", "p1", "p2">>, <<"p3", "p2", "p1">>}
\* quick: chain of 3, p1 has everything, p2 is one block behind and may tamper
H2a == [p \in P2 |-> 2]
H2b == [p \in P2 |-> IF p = "p1" THEN 2 ELSE 1]
H3a == [p \in P2 |-> IF p = "p1" THEN 3 ELSE 2]
H4a == [p \in P2 |-> IF p = "p1" THEN 4 ELSE 3]
H4b == [p \in P3 |-> IF p = "p1" THEN 4 ELSE IF p = "p2" THEN 3 ELSE 4]
ByzP2 == {"p2"}
ByzNone == {}
Empty2 == {1, 2}
Empty3 == {2, 3}        \* blocks 2 and 3 have no transaction: header 3 takes the empty-block shortcut
Empty4 == {3, 4}
EmptyNone == {}
ActsAll == {"AddNode", "NetDrop", "DelNode", "SyncHeader", "SyncHeaderBusy", "SyncHeaderResume",
            "SyncBlock", "SyncBlockBusy", "SyncBlockResume", "HeaderResp", "BlockResp",
            "SaveBlock", "SaveBlockBusy", "SaveBlockResume", "CheckTimeout"}

ActsQuick == ActsAll \ {"NetDrop"}
ActsLiveS == {"AddNode", "SyncHeader", "SyncBlock", "HeaderResp", "BlockResp", "SaveBlock", "CheckTimeout"}
ActsLive == {"AddNode", "NetDrop", "DelNode", "SyncHeader", "SyncBlock", "HeaderResp", "BlockResp", "SaveBlock", "CheckTimeout"}

Edge == PrintT(<<"EDGE", ToJson([from |-> State, act |-> act', to |-> State'])>>)
InitOut == (TLCGet("level") = 1) => PrintT(<<"INIT", ToJson(State)>>)
=============================================================================
