SPECIFICATION SpecC16t
CONSTANTS
  TxSpace <- Small16
  EthKeys <- NoKeys
  MaskByPosition = FALSE
  RawScriptFallback = FALSE
  MutClasses <- MutAll
INVARIANTS Sound MutatedRejected SameSigners

CHECK_DEADLOCK FALSE
