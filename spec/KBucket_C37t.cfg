SPECIFICATION Spec
CONSTANTS
  IdBits <- Ids6
  LocalBits <- Local6
  K = 2
  Peers <- Peers8
  Addrs <- Addrs2
  Targets <- Targets10
  Counts <- Counts4
  MaxOps = 7
VIEW view
INVARIANTS Valid NearestOK AddrOK SizeOK
PROPERTIES RemoveGone

CHECK_DEADLOCK FALSE
