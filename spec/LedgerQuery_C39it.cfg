SPECIFICATION Spec
CONSTANTS
  Shapes <- ShapesC39t
  MaxBlocks = 3
  Paths <- AllPaths
  Muts <- Double
  PreKinds <- NoKinds
  DuringKinds <- NoKinds
  Points <- NoKinds
  W = 2
  S = 2
  BitsOf <- RealBits
  BodyChecked = TRUE
  AllowRestart = TRUE
  AllowSync = TRUE
  FreshInits <- BothFresh
VIEW view
INVARIANTS TypeOK Coherent
PROPERTIES RejectedUnchanged OnlyValidCommitted
CHECK_DEADLOCK FALSE
