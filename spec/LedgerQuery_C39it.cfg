SPECIFICATION Spec
CONSTANTS
  Shapes <- ShapesC39t
  MaxBlocks = 3
  Paths <- AllPaths
  Muts <- Double
  PreKinds <- NoKinds
  W = 2
  S = 2
  BitsOf <- RealBits
  BodyChecked = TRUE
  AllowRestart = TRUE
  FreshInits <- BothFresh
VIEW view
INVARIANTS TypeOK Coherent
PROPERTIES RejectedUnchanged OnlyValidCommitted
CHECK_DEADLOCK FALSE
