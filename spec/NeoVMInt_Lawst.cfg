INIT InitLaws
NEXT Stutter
CONSTANTS
  SmallBound = 32
  SmallShift = 5
  SmallShrCount = 12
  Range <- RangeSmall
  ClassSet <- ClassesCore
  AliasSet <- ClassesAlias
  CoreSet <- CoreSmall
INVARIANT Laws
CHECK_DEADLOCK FALSE
