------------------------------- MODULE Wallet -------------------------------
(***************************************************************************)
(* The file wallet of ontio/ontology (account/client.go, file_store.go).    *)
(* One action per public operation of ClientImpl; the variables mirror the  *)
(* fields of ClientImpl:                                                     *)
(*   accts    walletData.Accounts   (sequence of object ids, order matters)  *)
(*   objs     the *AccountData objects (mutated in place by the operations)  *)
(*   addrIdx  accAddrs   address -> object        (0 = no entry)             *)
(*   labelIdx accLabels  label   -> object        (0 = no entry; the code    *)
(*            can create an entry for the empty label through SetLabel)      *)
(*   dfltPtr  defaultAcc                                                    *)
(*   file     the saved wallet file (sequence of account records)            *)
(* Every successful mutating operation ends with save().  Reload is          *)
(* NewClientImpl(path) on the saved file.                                    *)
(* Accounts: ImportIds are accounts that exist outside the wallet (import);  *)
(* NewIdSeq lists the identities of the keys that NewAccount will generate.  *)
(* An account record carries pwd (the password it is encrypted with) and enc *)
(* (the scrypt parameter set it is encrypted under); the wallet decrypts     *)
(* with its own parameter set WScrypt.                                       *)
(* Named deviations (code as found; FALSE = design):                         *)
(*   NewIgnoresWalletScrypt  NewAccount encrypts with the library default    *)
(*                           parameters instead of the wallet's              *)
(*   DupAddrImport           ImportAccount accepts an address that is        *)
(*                           already in the wallet (second list entry)       *)
(* Client threads.  ClientImpl is one object used by several goroutines      *)
(* (cli, sigsvr, rpc).  Every public call is a sequence of LOCK SEGMENTS      *)
(* (critical sections of ClientImpl.lock): a check segment (look the account  *)
(* up, guards, password check) and an act segment (mutate, save, re-index).   *)
(* Where the code holds the lock from the check to the end of the act, the    *)
(* pair is ONE action.  For the operations named in Split the lock is         *)
(* released between the two: the check segment stores its decision and the    *)
(* object it found in pend[t], any step of another thread may be scheduled    *)
(* at that lock-release point, and the act segment then runs on the CURRENT   *)
(* state with the stored decision.  Code as found: Split = {"Import"}         *)
(* (ImportAccount looks the label up under the read lock,                     *)
(* addAccountData re-checks label and address under the write lock); with a   *)
(* single thread the split is unobservable and Split = {} is used.            *)
(* Properties (C38): Persist, Opens, FailNoChange (save faults),              *)
(* DefaultListed, AuthCurrent (interleavings of two client threads).          *)
(***************************************************************************)
EXTENDS Naturals, Sequences, FiniteSets, TLC

CONSTANTS ImportIds,   \* set of account ids (naturals) importable from outside
          NewIdSeq,    \* sequence of account ids produced by NewAccount, in order
          ArgLabels,   \* labels used as arguments (strings, may contain "")
          Pwds,        \* passwords (non-empty strings)
          Schemes,     \* signature schemes valid for the key type
          BadScheme,   \* a scheme not valid for the key type
          WScrypt,     \* the wallet's scrypt parameter set: "low" or "def"
          MaxObj,      \* bound on live AccountData objects
          MaxOps, Acts,
          NewIgnoresWalletScrypt, DupAddrImport,
          Threads,     \* client threads (goroutines calling into the one ClientImpl), naturals >= 1
          Split,       \* names of the operations whose check segment and act segment are separate
                       \* critical sections (the lock is released in between)
          OneShot      \* TRUE: every thread makes one call, and thread t's call is the t-th to start (threads are
                       \* interchangeable, so this loses no interleaving of |Threads| concurrent calls)

\* pend[t]: the call thread t has in flight between its check segment and its act segment
\* who: the thread that took the last step (0 = the environment); history variable like act
VARIABLES accts, objs, addrIdx, labelIdx, dfltPtr, file, nnew, fault, pend, nops, act, who

vars == <<accts, objs, addrIdx, labelIdx, dfltPtr, file, nnew, fault, pend, nops, act, who>>
view == <<accts, objs, addrIdx, labelIdx, dfltPtr, file, nnew, fault, pend>>
\* with OneShot the number of calls made decides which thread may start a call: it is part of the state's identity
viewn == <<view, nops>>

NewIds == {NewIdSeq[i] : i \in 1..Len(NewIdSeq)}
AllIds == ImportIds \cup NewIds
Rename(l) == l \o "_1"
AllLabels == ArgLabels \cup {Rename(l) : l \in ArgLabels \ {""}} \cup {""}
Null == [id |-> 0, label |-> "", dflt |-> FALSE, scheme |-> "", pwd |-> "", enc |-> ""]
Oids == 1..MaxObj

RemoveAt(s, i) == SubSeq(s, 1, i - 1) \o SubSeq(s, i + 1, Len(s))
Last(S) == CHOOSE x \in S : \A y \in S : y <= x
LastOr0(S) == IF S = {} THEN 0 ELSE Last(S)

FileOf(ac, ob) == [i \in 1..Len(ac) |-> ob[ac[i]]]
Referenced(ac, ai, li, dp) == ({ac[i] : i \in 1..Len(ac)} \cup {ai[x] : x \in AllIds}
                               \cup {li[l] : l \in AllLabels} \cup {dp}) \ {0}
Idle == [pc |-> "idle", call |-> [name |-> "-"], o |-> 0, l2 |-> ""]
Quiet == \A t \in Threads : pend[t].pc = "idle"
\* objects held by the in-flight calls (of the threads other than t)
Caps == {pend[t].o : t \in Threads} \ {0}
Keep(t) == {pend[u].o : u \in Threads \ {t}} \ {0}
FreeOids == Oids \ (Referenced(accts, addrIdx, labelIdx, dfltPtr) \cup Caps)
Fresh == CHOOSE o \in FreeOids : \A p \in FreeOids : o <= p
\* objects that are no longer referenced are forgotten (garbage)
Gc(ob, ac, ai, li, dp, keep) == [o \in Oids |-> IF o \in Referenced(ac, ai, li, dp) \cup keep THEN ob[o] ELSE Null]

\* keypair.DecryptWithCustomScrypt(obj, pwd, walletData.Scrypt) succeeds
Decrypts(o, p) == objs[o].pwd = p /\ objs[o].enc = WScrypt

\* ------------------------------------------------------------ what a client shows
Meta(r) == [id |-> r.id, label |-> r.label, dflt |-> r.dflt, scheme |-> r.scheme]
ViewOf(ac, ob, ai, li, dp) ==
    [list    |-> [i \in 1..Len(ac) |-> Meta(ob[ac[i]])],
     byAddr  |-> [x \in AllIds |-> IF ai[x] = 0 THEN Meta(Null) ELSE Meta(ob[ai[x]])],
     byLabel |-> [l \in AllLabels \ {""} |-> IF li[l] = 0 THEN 0 ELSE ob[li[l]].id],
     dflt    |-> IF dp = 0 THEN Meta(Null) ELSE Meta(ob[dp]),
     num     |-> Cardinality({x \in AllIds : ai[x] # 0}),
     opens   |-> [x \in AllIds |-> {p \in Pwds : ai[x] # 0 /\ ob[ai[x]].pwd = p /\ ob[ai[x]].enc = WScrypt}]]
MemView == ViewOf(accts, objs, addrIdx, labelIdx, dfltPtr)

\* ClientImpl.load(): what NewClientImpl(path) builds from the file
LoadAccts(f) == [i \in 1..Len(f) |-> i]
LoadObjs(f) == [o \in Oids |-> IF o <= Len(f) THEN f[o] ELSE Null]
LoadAddr(f) == [x \in AllIds |-> LastOr0({i \in 1..Len(f) : f[i].id = x})]
LoadLabel(f) == [l \in AllLabels |-> IF l = "" THEN 0 ELSE LastOr0({i \in 1..Len(f) : f[i].label = l})]
LoadDflt(f) == LastOr0({i \in 1..Len(f) : f[i].dflt})
FileView == ViewOf(LoadAccts(file), LoadObjs(file), LoadAddr(file), LoadLabel(file), LoadDflt(file))

Init == /\ accts = <<>> /\ objs = [o \in Oids |-> Null]
        /\ addrIdx = [x \in AllIds |-> 0] /\ labelIdx = [l \in AllLabels |-> 0]
        /\ dfltPtr = 0 /\ file = <<>> /\ nnew = 0 /\ fault = FALSE /\ nops = 0
        /\ pend = [t \in Threads |-> Idle]
        /\ act = [name |-> "Init"] /\ who = 0

\* start from a prepared wallet: S = a set of (reachable, saved) states [accts, objs, addrIdx, labelIdx, dfltPtr, nnew, fault]
InitFrom(S) == \E s \in S :
        /\ accts = s.accts /\ objs = s.objs /\ addrIdx = s.addrIdx /\ labelIdx = s.labelIdx
        /\ dfltPtr = s.dfltPtr /\ file = FileOf(s.accts, s.objs) /\ nnew = s.nnew /\ fault = s.fault /\ nops = 0
        /\ pend = [t \in Threads |-> Idle]
        /\ act = [name |-> "Init"] /\ who = 0

\* a step of call a.  A call counts (nops) when its first segment runs; the act segment of a split call (ph = "act")
\* continues a call that has been counted
Step(a) == LET cont == "ph" \in DOMAIN a /\ a.ph = "act"
           IN /\ cont \/ nops < MaxOps
              /\ a.name \in Acts /\ nops' = (IF cont THEN nops ELSE nops + 1) /\ act' = a /\ fault' = fault
\* save() fails while fault holds (the wallet file cannot be written): the operation reports an error and rolls
\* its in-memory changes back, so nothing changes -- neither what the client shows nor the file
SaveFails(a) == Step(a @@ [res |-> "err"]) /\ UNCHANGED <<accts, objs, addrIdx, labelIdx, dfltPtr, file>>
Refuse == UNCHANGED <<accts, objs, addrIdx, labelIdx, dfltPtr, file, nnew>>
Save == file' = FileOf(accts', objs')

\* the decision of a check segment: v = "go" (the act segment follows; o = the *AccountData found, l2 = the label chosen)
\* or the final answer of the call
Final(v) == [v |-> v, o |-> 0, l2 |-> ""]
Go(o, l2) == [v |-> "go", o |-> o, l2 |-> l2]

\* thread t makes call a: d is the decision of its check segment (evaluated on the current state), ActOp its act
\* segment.  One critical section unless a.name \in Split.
Starts(t) == pend[t].pc = "idle" /\ (OneShot => nops = t - 1)
Call(t, a, d, ActOp) ==
    /\ Starts(t) /\ who' = t
    /\ IF d.v # "go" THEN Step(a @@ [res |-> d.v]) /\ Refuse /\ UNCHANGED pend
       ELSE IF a.name \in Split
       THEN /\ Step(a @@ [ph |-> "chk", res |-> "pending"]) /\ Refuse
            /\ pend' = [pend EXCEPT ![t] = [pc |-> "checked", call |-> a, o |-> d.o, l2 |-> d.l2]]
       ELSE ActOp /\ UNCHANGED pend

\* ---------------------------------------------------------------- addAccountData
\* addAccountData(accData) -- the act segment of NewAccount and ImportAccount (write lock); rec.dflt is FALSE on entry
AddAccountData(rec, a) ==
    IF rec.scheme \notin Schemes \/ (addrIdx[rec.id] # 0 /\ ~DupAddrImport) \/ (rec.label # "" /\ labelIdx[rec.label] # 0)
    THEN Step(a @@ [res |-> "err"]) /\ UNCHANGED <<accts, objs, addrIdx, labelIdx, dfltPtr, file>>
    ELSE IF fault THEN SaveFails(a)
    ELSE LET o == Fresh
             r == [rec EXCEPT !.dflt = (Len(accts) = 0)]
         IN /\ Step(a @@ [res |-> "ok"])
            /\ accts' = Append(accts, o)
            /\ objs' = [objs EXCEPT ![o] = r]
            /\ addrIdx' = [addrIdx EXCEPT ![r.id] = o]
            /\ dfltPtr' = IF r.dflt THEN o ELSE dfltPtr
            /\ labelIdx' = IF r.label # "" THEN [labelIdx EXCEPT ![r.label] = o] ELSE labelIdx
            /\ Save

\* NewAccount(label, scheme, pwd): generates the next fresh key (outside the lock), then addAccountData
New(t, l, s, p) ==
    /\ nnew < Len(NewIdSeq) /\ FreeOids # {}
    /\ LET x == NewIdSeq[nnew + 1]
           rec == [id |-> x, label |-> l, dflt |-> FALSE, scheme |-> s, pwd |-> p,
                   enc |-> IF NewIgnoresWalletScrypt THEN "def" ELSE WScrypt]
           a == [name |-> "New", id |-> x, label |-> l, scheme |-> s, pwd |-> p]
       IN /\ Starts(t) /\ who' = t /\ UNCHANGED pend
          /\ AddAccountData(rec, a)
          \* the key pair is consumed only if the account was added
          /\ nnew' = IF accts' # accts THEN nnew + 1 ELSE nnew

\* ImportAccount(meta): account x, encrypted outside with password p under the wallet's parameters.
\* check segment (read lock, GetAccountMetadataByLabel): a taken label is renamed; act segment: addAccountData, which
\* re-checks address and label
ImportAct(x, l2, p, a) ==
    /\ FreeOids # {}
    /\ AddAccountData([id |-> x, label |-> l2, dflt |-> FALSE, scheme |-> CHOOSE s \in Schemes : TRUE,
                       pwd |-> p, enc |-> WScrypt], a)
    /\ UNCHANGED nnew
Import(t, x, l, p) ==
    /\ x \in ImportIds /\ FreeOids # {}
    /\ LET l2 == IF l # "" /\ labelIdx[l] # 0 THEN Rename(l) ELSE l
           a == [name |-> "Import", id |-> x, label |-> l, pwd |-> p]
       IN /\ l2 \in AllLabels
          /\ Call(t, a, Go(0, l2), ImportAct(x, l2, p, a))

\* ---------------------------------------------------------------- DeleteAccount(address, pwd)
DeleteChk(x, p) ==
    LET o == addrIdx[x]
    IN IF o = 0 THEN Final("none")
       ELSE IF objs[o].dflt \/ ~Decrypts(o, p) THEN Final("err") ELSE Go(o, "")
\* walletData.DelAccount(address) (first list entry of that address, if any), save, drop the index entries
DeleteAct(t, x, o, a) ==
    IF fault THEN SaveFails(a) /\ UNCHANGED nnew
    ELSE LET is == {j \in 1..Len(accts) : objs[accts[j]].id = x}
             ac == IF is = {} THEN accts ELSE RemoveAt(accts, CHOOSE j \in is : \A k \in is : j <= k)
             ai == [addrIdx EXCEPT ![x] = 0]
             li == IF objs[o].label # "" THEN [labelIdx EXCEPT ![objs[o].label] = 0] ELSE labelIdx
         IN /\ Step(a @@ [res |-> "ok"])
            /\ accts' = ac /\ addrIdx' = ai /\ labelIdx' = li
            /\ objs' = Gc(objs, ac, ai, li, dfltPtr, Keep(t))
            /\ file' = FileOf(ac, objs)
            /\ UNCHANGED <<dfltPtr, nnew>>
Delete(t, x, p) ==
    LET a == [name |-> "Delete", id |-> x, pwd |-> p]
        d == DeleteChk(x, p)
    IN Call(t, a, d, DeleteAct(t, x, d.o, a))

\* ---------------------------------------------------------------- SetDefaultAccount(address)
SetDefaultChk(x) ==
    IF dfltPtr # 0 /\ objs[dfltPtr].id = x THEN Final("ok")
    ELSE IF addrIdx[x] = 0 THEN Final("err") ELSE Go(addrIdx[x], "")
SetDefaultAct(o, a) ==
    IF fault THEN SaveFails(a) /\ UNCHANGED nnew
    ELSE /\ Step(a @@ [res |-> "ok"])
         /\ objs' = [q \in Oids |-> IF q = o THEN [objs[q] EXCEPT !.dflt = TRUE]
                                    ELSE IF q = dfltPtr THEN [objs[q] EXCEPT !.dflt = FALSE]
                                    ELSE objs[q]]
         /\ dfltPtr' = o
         /\ UNCHANGED <<accts, addrIdx, labelIdx, nnew>> /\ Save
SetDefault(t, x) ==
    LET a == [name |-> "SetDefault", id |-> x]
        d == SetDefaultChk(x)
    IN Call(t, a, d, SetDefaultAct(d.o, a))

\* ---------------------------------------------------------------- SetLabel(address, label)
SetLabelChk(x, l) ==
    LET o == addrIdx[x]
    IN IF labelIdx[l] # 0 \/ o = 0 THEN Final("err")
       ELSE IF objs[o].label = l THEN Final("ok") ELSE Go(o, "")
SetLabelAct(o, l, a) ==
    IF fault THEN SaveFails(a) /\ UNCHANGED nnew
    ELSE /\ Step(a @@ [res |-> "ok"])
         /\ objs' = [objs EXCEPT ![o].label = l]
         /\ labelIdx' = [labelIdx EXCEPT ![objs[o].label] = 0, ![l] = o]
         /\ UNCHANGED <<accts, addrIdx, dfltPtr, nnew>> /\ Save
SetLabel(t, x, l) ==
    LET a == [name |-> "SetLabel", id |-> x, label |-> l]
        d == SetLabelChk(x, l)
    IN Call(t, a, d, SetLabelAct(d.o, l, a))

\* ---------------------------------------------------------------- ChangePassword(address, old, new)
ChangePasswordChk(x, p, q) ==
    LET o == addrIdx[x]
    IN IF p = q THEN Final("ok")
       ELSE IF o = 0 \/ ~Decrypts(o, p) THEN Final("err") ELSE Go(o, "")
ChangePasswordAct(o, q, a) ==
    IF fault THEN SaveFails(a) /\ UNCHANGED nnew
    ELSE /\ Step(a @@ [res |-> "ok"])
         /\ objs' = [objs EXCEPT ![o].pwd = q, ![o].enc = WScrypt]
         /\ UNCHANGED <<accts, addrIdx, labelIdx, dfltPtr, nnew>> /\ Save
ChangePassword(t, x, p, q) ==
    LET a == [name |-> "ChangePassword", id |-> x, old |-> p, new |-> q]
        d == ChangePasswordChk(x, p, q)
    IN Call(t, a, d, ChangePasswordAct(d.o, q, a))

\* ---------------------------------------------------------------- ChangeSigScheme(address, scheme)
ChangeSchemeChk(x, s) == IF addrIdx[x] = 0 \/ s \notin Schemes THEN Final("err") ELSE Go(addrIdx[x], "")
ChangeSchemeAct(o, s, a) ==
    IF fault THEN SaveFails(a) /\ UNCHANGED nnew
    ELSE /\ Step(a @@ [res |-> "ok"])
         /\ objs' = [objs EXCEPT ![o].scheme = s]
         /\ UNCHANGED <<accts, addrIdx, labelIdx, dfltPtr, nnew>> /\ Save
ChangeScheme(t, x, s) ==
    LET a == [name |-> "ChangeScheme", id |-> x, scheme |-> s]
        d == ChangeSchemeChk(x, s)
    IN Call(t, a, d, ChangeSchemeAct(d.o, s, a))

\* ---------------------------------------------------------------- GetAccountByAddress(address, pwd) (read lock)
Open(t, x, p) ==
    LET o == addrIdx[x]
        a == [name |-> "Open", id |-> x, pwd |-> p]
    IN Call(t, a, Final(IF o = 0 THEN "none" ELSE IF Decrypts(o, p) THEN "ok" ELSE "err"), FALSE)

\* the act segment of the call thread t has in flight: on the current state, with the decision stored by its check
Resume(t) ==
    /\ pend[t].pc = "checked" /\ who' = t /\ pend' = [pend EXCEPT ![t] = Idle]
    /\ LET c == pend[t].call
           a == c @@ [ph |-> "act"]
           o == pend[t].o
       IN CASE c.name = "Import" -> ImportAct(c.id, pend[t].l2, c.pwd, a)
            [] c.name = "Delete" -> DeleteAct(t, c.id, o, a)
            [] c.name = "SetDefault" -> SetDefaultAct(o, a)
            [] c.name = "SetLabel" -> SetLabelAct(o, c.label, a)
            [] c.name = "ChangePassword" -> ChangePasswordAct(o, c.new, a)
            [] c.name = "ChangeScheme" -> ChangeSchemeAct(o, c.scheme, a)

\* the process ends and the wallet is opened again: NewClientImpl(path)
Reload ==
    /\ Quiet
    /\ Step([name |-> "Reload", res |-> "ok"])
    /\ accts' = LoadAccts(file) /\ objs' = LoadObjs(file) /\ addrIdx' = LoadAddr(file)
    /\ labelIdx' = LoadLabel(file) /\ dfltPtr' = LoadDflt(file)
    /\ UNCHANGED <<file, nnew>>

\* the environment: the wallet file becomes unwritable / writable again
SetFault == /\ ~fault /\ nops < MaxOps /\ "SetFault" \in Acts /\ nops' = nops + 1 /\ fault' = TRUE
            /\ act' = [name |-> "SetFault", res |-> "ok"] /\ Refuse
ClearFault == /\ fault /\ nops < MaxOps /\ "ClearFault" \in Acts /\ nops' = nops + 1 /\ fault' = FALSE
              /\ act' = [name |-> "ClearFault", res |-> "ok"] /\ Refuse

Env == (SetFault \/ ClearFault \/ Reload) /\ who' = 0 /\ UNCHANGED pend

ThreadStep(t) ==
        \/ \E l \in ArgLabels, s \in Schemes \cup {BadScheme}, p \in Pwds : New(t, l, s, p)
        \/ \E x \in ImportIds, l \in ArgLabels, p \in Pwds : Import(t, x, l, p)
        \/ \E x \in AllIds, p \in Pwds : Delete(t, x, p)
        \/ \E x \in AllIds : SetDefault(t, x)
        \/ \E x \in AllIds, l \in ArgLabels : SetLabel(t, x, l)
        \/ \E x \in AllIds, p \in Pwds, q \in Pwds : ChangePassword(t, x, p, q)
        \/ \E x \in AllIds, s \in Schemes \cup {BadScheme} : ChangeScheme(t, x, s)
        \/ \E x \in AllIds, p \in Pwds : Open(t, x, p)
        \/ Resume(t)

Next == Env \/ \E t \in Threads : ThreadStep(t)

Spec == Init /\ [][Next]_vars

(******************************** properties *******************************)
TypeOK == /\ \A i \in 1..Len(accts) : accts[i] \in Oids /\ objs[accts[i]].id \in AllIds
          /\ \A x \in AllIds : addrIdx[x] \in Oids \cup {0}
          /\ dfltPtr \in Oids \cup {0}
\* every successful operation has been saved
Saved == file = FileOf(accts, objs)
\* C38: an operation that reports an error (a failed save in particular) changes nothing: the client shows what it
\* showed before, and the file is untouched -- so the next successful save persists the old passwords
FailNoChange == [][act'.res = "err" => UNCHANGED <<accts, objs, addrIdx, labelIdx, dfltPtr, file>>]_vars
\* C38: save + reload shows the same accounts with the same metadata (and opens the same)
Persist == FileView = MemView
\* C38: every listed account opens with exactly its current password
Opens == \A x \in AllIds : addrIdx[x] # 0 => MemView.opens[x] = {objs[addrIdx[x]].pwd}
\* at most one default account, and the default pointer agrees with the flags
OneDefault == /\ Cardinality({i \in 1..Len(accts) : objs[accts[i]].dflt}) <= 1
              /\ (Len(accts) > 0 => dfltPtr # 0 /\ objs[dfltPtr].dflt)

\* C38 under concurrent client threads: what the client serves is what it lists -- the default account and every
\* indexed account is an entry of the account list (a deleted account is never served or opened), and a non-empty
\* wallet file names a default account
Listed(o) == \E i \in 1..Len(accts) : accts[i] = o
DefaultListed == Quiet => /\ dfltPtr # 0 => Listed(dfltPtr)
                          /\ \A x \in AllIds : addrIdx[x] # 0 => Listed(addrIdx[x])
                          /\ Len(file) > 0 => \E i \in 1..Len(file) : file[i].dflt
\* C38 under concurrent client threads: a call that is authorised by a password succeeds only if that password is
\* the account's current password when the call takes effect (the step that answers "ok")
AuthCurrent == [][(/\ act'.name \in {"Delete", "ChangePassword", "Open"} /\ act'.res = "ok"
                   /\ (act'.name = "ChangePassword" => act'.old # act'.new))
                  => /\ addrIdx[act'.id] # 0
                     /\ Decrypts(addrIdx[act'.id], IF act'.name = "ChangePassword" THEN act'.old ELSE act'.pwd)]_vars

\* exported state: every VIEW variable except file, which is FileOf(accts, objs) by invariant Saved
State == [accts |-> accts, objs |-> objs, addrIdx |-> addrIdx, labelIdx |-> labelIdx, dfltPtr |-> dfltPtr,
          nnew |-> nnew, fault |-> fault, pend |-> pend]
StateN == State @@ [nops |-> nops]
=============================================================================
