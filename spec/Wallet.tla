------------------------------- MODULE Wallet -------------------------------
(***************************************************************************)
(* The file wallet of ontio/ontology (account/client.go, file_store.go).    *)
(* One action per public operation of ClientImpl; the variables mirror the  *)
(* fields of ClientImpl:                                                     *)
(*   accts    walletData.Accounts   (sequence of object ids, order matters)  *)
(*   objs     the *AccountData objects (mutated in place by the operations)  *)
(*   addrIdx  accAddrs   address -> object        (0 = no entry)             *)
(*   labelIdx accLabels  label   -> object        (0 = no entry; the code    *)
(*            can create an entry for the empty label through SetLabel)      *)
(*   dfltPtr  defaultAcc                                                    *)
(*   file     the saved wallet file (sequence of account records)            *)
(* Every successful mutating operation ends with save().  Reload is          *)
(* NewClientImpl(path) on the saved file.                                    *)
(* Accounts: ImportIds are accounts that exist outside the wallet (import);  *)
(* NewIdSeq lists the identities of the keys that NewAccount will generate.  *)
(* An account record carries pwd (the password it is encrypted with) and enc *)
(* (the scrypt parameter set it is encrypted under); the wallet decrypts     *)
(* with its own parameter set WScrypt.                                       *)
(* Named deviations (code as found; FALSE = design):                         *)
(*   NewIgnoresWalletScrypt  NewAccount encrypts with the library default    *)
(*                           parameters instead of the wallet's              *)
(*   DupAddrImport           ImportAccount accepts an address that is        *)
(*                           already in the wallet (second list entry)       *)
(* Properties (C38): Persist, Opens, FailNoChange (save faults).             *)
(***************************************************************************)
EXTENDS Naturals, Sequences, FiniteSets, TLC

CONSTANTS ImportIds,   \* set of account ids (naturals) importable from outside
          NewIdSeq,    \* sequence of account ids produced by NewAccount, in order
          ArgLabels,   \* labels used as arguments (strings, may contain "")
          Pwds,        \* passwords (non-empty strings)
          Schemes,     \* signature schemes valid for the key type
          BadScheme,   \* a scheme not valid for the key type
          WScrypt,     \* the wallet's scrypt parameter set: "low" or "def"
          MaxObj,      \* bound on live AccountData objects
          MaxOps, Acts,
          NewIgnoresWalletScrypt, DupAddrImport

VARIABLES accts, objs, addrIdx, labelIdx, dfltPtr, file, nnew, fault, nops, act

vars == <<accts, objs, addrIdx, labelIdx, dfltPtr, file, nnew, fault, nops, act>>
view == <<accts, objs, addrIdx, labelIdx, dfltPtr, file, nnew, fault>>

NewIds == {NewIdSeq[i] : i \in 1..Len(NewIdSeq)}
AllIds == ImportIds \cup NewIds
Rename(l) == l \o "_1"
AllLabels == ArgLabels \cup {Rename(l) : l \in ArgLabels \ {""}} \cup {""}
Null == [id |-> 0, label |-> "", dflt |-> FALSE, scheme |-> "", pwd |-> "", enc |-> ""]
Oids == 1..MaxObj

RemoveAt(s, i) == SubSeq(s, 1, i - 1) \o SubSeq(s, i + 1, Len(s))
Last(S) == CHOOSE x \in S : \A y \in S : y <= x
LastOr0(S) == IF S = {} THEN 0 ELSE Last(S)

FileOf(ac, ob) == [i \in 1..Len(ac) |-> ob[ac[i]]]
Referenced(ac, ai, li, dp) == ({ac[i] : i \in 1..Len(ac)} \cup {ai[x] : x \in AllIds}
                               \cup {li[l] : l \in AllLabels} \cup {dp}) \ {0}
FreeOids == Oids \ Referenced(accts, addrIdx, labelIdx, dfltPtr)
Fresh == CHOOSE o \in FreeOids : \A p \in FreeOids : o <= p
\* objects that are no longer referenced are forgotten (garbage)
Gc(ob, ac, ai, li, dp) == [o \in Oids |-> IF o \in Referenced(ac, ai, li, dp) THEN ob[o] ELSE Null]

\* keypair.DecryptWithCustomScrypt(obj, pwd, walletData.Scrypt) succeeds
Decrypts(o, p) == objs[o].pwd = p /\ objs[o].enc = WScrypt

\* ------------------------------------------------------------ what a client shows
Meta(r) == [id |-> r.id, label |-> r.label, dflt |-> r.dflt, scheme |-> r.scheme]
ViewOf(ac, ob, ai, li, dp) ==
    [list    |-> [i \in 1..Len(ac) |-> Meta(ob[ac[i]])],
     byAddr  |-> [x \in AllIds |-> IF ai[x] = 0 THEN Meta(Null) ELSE Meta(ob[ai[x]])],
     byLabel |-> [l \in AllLabels \ {""} |-> IF li[l] = 0 THEN 0 ELSE ob[li[l]].id],
     dflt    |-> IF dp = 0 THEN Meta(Null) ELSE Meta(ob[dp]),
     num     |-> Cardinality({x \in AllIds : ai[x] # 0}),
     opens   |-> [x \in AllIds |-> {p \in Pwds : ai[x] # 0 /\ ob[ai[x]].pwd = p /\ ob[ai[x]].enc = WScrypt}]]
MemView == ViewOf(accts, objs, addrIdx, labelIdx, dfltPtr)

\* ClientImpl.load(): what NewClientImpl(path) builds from the file
LoadAccts(f) == [i \in 1..Len(f) |-> i]
LoadObjs(f) == [o \in Oids |-> IF o <= Len(f) THEN f[o] ELSE Null]
LoadAddr(f) == [x \in AllIds |-> LastOr0({i \in 1..Len(f) : f[i].id = x})]
LoadLabel(f) == [l \in AllLabels |-> IF l = "" THEN 0 ELSE LastOr0({i \in 1..Len(f) : f[i].label = l})]
LoadDflt(f) == LastOr0({i \in 1..Len(f) : f[i].dflt})
FileView == ViewOf(LoadAccts(file), LoadObjs(file), LoadAddr(file), LoadLabel(file), LoadDflt(file))

Init == /\ accts = <<>> /\ objs = [o \in Oids |-> Null]
        /\ addrIdx = [x \in AllIds |-> 0] /\ labelIdx = [l \in AllLabels |-> 0]
        /\ dfltPtr = 0 /\ file = <<>> /\ nnew = 0 /\ fault = FALSE /\ nops = 0
        /\ act = [name |-> "Init"]

Step(a) == nops < MaxOps /\ a.name \in Acts /\ nops' = nops + 1 /\ act' = a /\ fault' = fault
\* save() fails while fault holds (the wallet file cannot be written): the operation reports an error and rolls
\* its in-memory changes back, so nothing changes -- neither what the client shows nor the file
SaveFails(a) == Step(a @@ [res |-> "err"]) /\ UNCHANGED <<accts, objs, addrIdx, labelIdx, dfltPtr, file>>
Refuse == UNCHANGED <<accts, objs, addrIdx, labelIdx, dfltPtr, file, nnew>>
Save == file' = FileOf(accts', objs')

\* addAccountData(accData) -- shared by NewAccount and ImportAccount; rec.dflt is FALSE on entry
AddAccountData(rec, a) ==
    IF rec.scheme \notin Schemes \/ (rec.label # "" /\ labelIdx[rec.label] # 0)
    THEN Step(a @@ [res |-> "err"]) /\ UNCHANGED <<accts, objs, addrIdx, labelIdx, dfltPtr, file>>
    ELSE IF fault THEN SaveFails(a)
    ELSE LET o == Fresh
             r == [rec EXCEPT !.dflt = (Len(accts) = 0)]
         IN /\ Step(a @@ [res |-> "ok"])
            /\ accts' = Append(accts, o)
            /\ objs' = [objs EXCEPT ![o] = r]
            /\ addrIdx' = [addrIdx EXCEPT ![r.id] = o]
            /\ dfltPtr' = IF r.dflt THEN o ELSE dfltPtr
            /\ labelIdx' = IF r.label # "" THEN [labelIdx EXCEPT ![r.label] = o] ELSE labelIdx
            /\ Save

\* NewAccount(label, scheme, pwd): generates the next fresh key
New(l, s, p) ==
    /\ nnew < Len(NewIdSeq) /\ FreeOids # {}
    /\ LET x == NewIdSeq[nnew + 1]
           rec == [id |-> x, label |-> l, dflt |-> FALSE, scheme |-> s, pwd |-> p,
                   enc |-> IF NewIgnoresWalletScrypt THEN "def" ELSE WScrypt]
           a == [name |-> "New", id |-> x, label |-> l, scheme |-> s, pwd |-> p]
       IN /\ AddAccountData(rec, a)
          \* the key pair is consumed only if the account was added
          /\ nnew' = IF accts' # accts THEN nnew + 1 ELSE nnew

\* ImportAccount(meta): account x, encrypted outside with password p under the wallet's parameters
Import(x, l, p) ==
    /\ x \in ImportIds /\ FreeOids # {}
    /\ LET l2 == IF l # "" /\ labelIdx[l] # 0 THEN Rename(l) ELSE l
           rec == [id |-> x, label |-> l2, dflt |-> FALSE, scheme |-> CHOOSE s \in Schemes : TRUE,
                   pwd |-> p, enc |-> WScrypt]
           a == [name |-> "Import", id |-> x, label |-> l, pwd |-> p]
       IN /\ l2 \in AllLabels
          /\ IF addrIdx[x] # 0 /\ ~DupAddrImport
             THEN Step(a @@ [res |-> "err"]) /\ Refuse     \* design: an address is listed once
             ELSE AddAccountData(rec, a) /\ UNCHANGED nnew

\* DeleteAccount(address, pwd)
Delete(x, p) ==
    LET a == [name |-> "Delete", id |-> x, pwd |-> p]
        o == addrIdx[x]
    IN IF o = 0 THEN Step(a @@ [res |-> "none"]) /\ Refuse
       ELSE IF objs[o].dflt \/ ~Decrypts(o, p) THEN Step(a @@ [res |-> "err"]) /\ Refuse
       ELSE IF fault THEN SaveFails(a) /\ UNCHANGED nnew
       ELSE LET i == CHOOSE j \in 1..Len(accts) : objs[accts[j]].id = x
                                                  /\ \A k \in 1..(j - 1) : objs[accts[k]].id # x
                ac == RemoveAt(accts, i)
                ai == [addrIdx EXCEPT ![x] = 0]
                li == IF objs[o].label # "" THEN [labelIdx EXCEPT ![objs[o].label] = 0] ELSE labelIdx
            IN /\ Step(a @@ [res |-> "ok"])
               /\ accts' = ac /\ addrIdx' = ai /\ labelIdx' = li
               /\ objs' = Gc(objs, ac, ai, li, dfltPtr)
               /\ file' = FileOf(ac, objs)
               /\ UNCHANGED <<dfltPtr, nnew>>

\* SetDefaultAccount(address)
SetDefault(x) ==
    LET a == [name |-> "SetDefault", id |-> x]
        o == addrIdx[x]
    IN IF dfltPtr # 0 /\ objs[dfltPtr].id = x THEN Step(a @@ [res |-> "ok"]) /\ Refuse
       ELSE IF o = 0 THEN Step(a @@ [res |-> "err"]) /\ Refuse
       ELSE IF fault THEN SaveFails(a) /\ UNCHANGED nnew
       ELSE /\ Step(a @@ [res |-> "ok"])
            /\ objs' = [q \in Oids |-> IF q = o THEN [objs[q] EXCEPT !.dflt = TRUE]
                                       ELSE IF q = dfltPtr THEN [objs[q] EXCEPT !.dflt = FALSE]
                                       ELSE objs[q]]
            /\ dfltPtr' = o
            /\ UNCHANGED <<accts, addrIdx, labelIdx, nnew>> /\ Save

\* SetLabel(address, label)
SetLabel(x, l) ==
    LET a == [name |-> "SetLabel", id |-> x, label |-> l]
        o == addrIdx[x]
    IN IF labelIdx[l] # 0 \/ o = 0 THEN Step(a @@ [res |-> "err"]) /\ Refuse
       ELSE IF objs[o].label = l THEN Step(a @@ [res |-> "ok"]) /\ Refuse
       ELSE IF fault THEN SaveFails(a) /\ UNCHANGED nnew
       ELSE /\ Step(a @@ [res |-> "ok"])
            /\ objs' = [objs EXCEPT ![o].label = l]
            /\ labelIdx' = [labelIdx EXCEPT ![objs[o].label] = 0, ![l] = o]
            /\ UNCHANGED <<accts, addrIdx, dfltPtr, nnew>> /\ Save

\* ChangePassword(address, old, new)
ChangePassword(x, p, q) ==
    LET a == [name |-> "ChangePassword", id |-> x, old |-> p, new |-> q]
        o == addrIdx[x]
    IN IF p = q THEN Step(a @@ [res |-> "ok"]) /\ Refuse
       ELSE IF o = 0 \/ ~Decrypts(o, p) THEN Step(a @@ [res |-> "err"]) /\ Refuse
       ELSE IF fault THEN SaveFails(a) /\ UNCHANGED nnew
       ELSE /\ Step(a @@ [res |-> "ok"])
            /\ objs' = [objs EXCEPT ![o].pwd = q, ![o].enc = WScrypt]
            /\ UNCHANGED <<accts, addrIdx, labelIdx, dfltPtr, nnew>> /\ Save

\* ChangeSigScheme(address, scheme)
ChangeScheme(x, s) ==
    LET a == [name |-> "ChangeScheme", id |-> x, scheme |-> s]
        o == addrIdx[x]
    IN IF o = 0 \/ s \notin Schemes THEN Step(a @@ [res |-> "err"]) /\ Refuse
       ELSE IF fault THEN SaveFails(a) /\ UNCHANGED nnew
       ELSE /\ Step(a @@ [res |-> "ok"])
            /\ objs' = [objs EXCEPT ![o].scheme = s]
            /\ UNCHANGED <<accts, addrIdx, labelIdx, dfltPtr, nnew>> /\ Save

\* the process ends and the wallet is opened again: NewClientImpl(path)
Reload ==
    /\ Step([name |-> "Reload", res |-> "ok"])
    /\ accts' = LoadAccts(file) /\ objs' = LoadObjs(file) /\ addrIdx' = LoadAddr(file)
    /\ labelIdx' = LoadLabel(file) /\ dfltPtr' = LoadDflt(file)
    /\ UNCHANGED <<file, nnew>>

\* the environment: the wallet file becomes unwritable / writable again
SetFault == /\ ~fault /\ nops < MaxOps /\ "SetFault" \in Acts /\ nops' = nops + 1 /\ fault' = TRUE
            /\ act' = [name |-> "SetFault", res |-> "ok"] /\ Refuse
ClearFault == /\ fault /\ nops < MaxOps /\ "ClearFault" \in Acts /\ nops' = nops + 1 /\ fault' = FALSE
              /\ act' = [name |-> "ClearFault", res |-> "ok"] /\ Refuse

Next == \/ SetFault \/ ClearFault
        \/ \E l \in ArgLabels, s \in Schemes \cup {BadScheme}, p \in Pwds : New(l, s, p)
        \/ \E x \in ImportIds, l \in ArgLabels, p \in Pwds : Import(x, l, p)
        \/ \E x \in AllIds, p \in Pwds : Delete(x, p)
        \/ \E x \in AllIds : SetDefault(x)
        \/ \E x \in AllIds, l \in ArgLabels : SetLabel(x, l)
        \/ \E x \in AllIds, p \in Pwds, q \in Pwds : ChangePassword(x, p, q)
        \/ \E x \in AllIds, s \in Schemes \cup {BadScheme} : ChangeScheme(x, s)
        \/ Reload

Spec == Init /\ [][Next]_vars

(******************************** properties *******************************)
TypeOK == /\ \A i \in 1..Len(accts) : accts[i] \in Oids /\ objs[accts[i]].id \in AllIds
          /\ \A x \in AllIds : addrIdx[x] \in Oids \cup {0}
          /\ dfltPtr \in Oids \cup {0}
\* every successful operation has been saved
Saved == file = FileOf(accts, objs)
\* C38: an operation that reports an error (a failed save in particular) changes nothing: the client shows what it
\* showed before, and the file is untouched -- so the next successful save persists the old passwords
FailNoChange == [][act'.res = "err" => UNCHANGED <<accts, objs, addrIdx, labelIdx, dfltPtr, file>>]_vars
\* C38: save + reload shows the same accounts with the same metadata (and opens the same)
Persist == FileView = MemView
\* C38: every listed account opens with exactly its current password
Opens == \A x \in AllIds : addrIdx[x] # 0 => MemView.opens[x] = {objs[addrIdx[x]].pwd}
\* at most one default account, and the default pointer agrees with the flags
OneDefault == /\ Cardinality({i \in 1..Len(accts) : objs[accts[i]].dflt}) <= 1
              /\ (Len(accts) > 0 => dfltPtr # 0 /\ objs[dfltPtr].dflt)

\* exported state: every VIEW variable except file, which is FileOf(accts, objs) by invariant Saved
State == [accts |-> accts, objs |-> objs, addrIdx |-> addrIdx, labelIdx |-> labelIdx, dfltPtr |-> dfltPtr,
          nnew |-> nnew, fault |-> fault]
=============================================================================
