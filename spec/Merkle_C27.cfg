SPECIFICATION SpecB
CONSTANTS
  MaxN = 0
  MaxK = 9
  EqRootShortcut = FALSE
  EqSizeIgnoresProof = TRUE
  ZeroOldShortcut = TRUE
  Tear = FALSE
  MutLevel = 2
  BigInit <- GenBig
  Pairs <- GenPairs
VIEW view
INVARIANTS XRootOK XCompleteOK
PROPERTIES XSoundOK XExactOK XFunctionOK
CONSTRAINT InitOutA
ACTION_CONSTRAINT EdgeA
CHECK_DEADLOCK FALSE
