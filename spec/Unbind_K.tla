------------------------------ MODULE Unbind_K ------------------------------
(* Parameters of Unbind.tla.  THIS FILE IS THE REFERENCE COPY (mainnet values as they  *)
(* are in common/constants and common/config at the time of writing).  Every check run *)
(* regenerates it in its scratch directory from the values the Go harness reads from   *)
(* the current tree (per network), and records a note if they differ from these.       *)
EXTENDS Integers, Sequences
K_Net == "mainnet"
K_T == 31536000
\* @type: Seq(Int);
K_Rate == <<5, 4, 3, 3, 2, 2, 2, 1, 1, 1, 1, 1, 1, 1, 1, 1, 1, 1>>
\* @type: Seq(Int);
K_NewRate == <<5, 4, 1, 1, 1, 1, 1, 1, 1, 1, 1, 1, 1, 2, 2, 2, 3, 3>>
K_D == 63763200
K_GD == 564136533
K_Gap == 1
K_OntSupply == 1000000000
K_OngSupply == K_OntSupply * 1000000000 + 0   \* 10^18 (TLC cannot parse the literal)
K_GapAtDeadline == TRUE
=============================================================================
