SPECIFICATION Spec
CONSTANTS
  Peers <- P2
  N = 3
  PeerH <- H3a
  Byz <- ByzP2
  Honest = "p1"
  Empty <- Empty3
  Perms <- Perms2
  MaxFlightHdr = 1
  MaxFlightBlk = 3
  MaxCache = 500
  MaxHdrFwd = 5000
  NextTimes = 3
  NextHeights = 2
  AcceptAnyBlock = TRUE
  AcceptAnyHdrPeer = TRUE
  TimeoutPickCur = TRUE
  SchedCap = 99
  MaxHeld = 1
  RecordAct = TRUE
  Acts <- ActsQuick
VIEW view
INVARIANTS TypeOK CacheAboveCommitted FlightCacheDisjoint FlightBound NoWedge
PROPERTIES CommitInOrder NoRedundantReq RejectHandled TimeoutReattributes
CHECK_DEADLOCK FALSE
