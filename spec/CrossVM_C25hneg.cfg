SPECIFICATION HistSpec
CONSTANTS
  WideSizes = {1023, 1024, 1025, 2000}
  Atoms <- AtomsFull
  AtomsMid <- AtomsMid3
  AtomsDeep <- AtomsDeep1
  MaxLen = 2
  MaxNest = 12
  Repl <- ReplQ
  HistValues <- HistQ
  ParValues <- ParQ
  MaxKept = 3
  SinkReuse = TRUE
VIEW hview
INVARIANT Stable
CHECK_DEADLOCK FALSE
