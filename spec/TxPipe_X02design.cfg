\* design variant (all named deviations off), configuration Q: the strict properties hold
SPECIFICATION Spec
CONSTANTS
  Txs <- TxAll
  HashOf <- HashAll
  BadSig <- BadSigAll
  LowGas <- LowGasAll
  Price <- PriceAll
  Drains <- DrainsAll
  SubmitTxs <- SubmitQ
  StaleTxs <- StaleQ
  Kinds <- KindsH
  Blocks <- BlocksQ
  VLists <- VListsQ
  ByCounts <- ByCountTF
  QuietVerify = FALSE
  Cap = 2
  Lim = 2
  MaxTx = 1
  H0 = 1
  MaxHeight = 2
  MaxLag = 1
  MaxFly = 3
  MaxPerTx = 1
  PreExec = TRUE
  InvertedExpiry = FALSE
  CheckThenActCap = FALSE
  SlotOverReturn = FALSE
  SlotLostOnDup = FALSE
VIEW view
INVARIANTS TypeOK PoolSound Unique NoOrphan PoolCapStrict PendLimStrict SlotsExact
PROPERTIES GetTxPoolOK DupAnswered BlockSavedOK ReplyOnce VerifyBlockOK
CHECK_DEADLOCK FALSE
