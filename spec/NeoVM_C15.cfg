INIT Init
NEXT Next
CONSTANTS
  NC = 2
  MaxSlots = 2
  MaxDepth = 10
  NotifyMax = 8
  CycleCheckFirstOnly = FALSE
  HeapMode = "arrmap"
  ChainLens = {10, 11, 12}
  WithMutations = FALSE
INVARIANTS OrderFree DetectorSound Total
CONSTRAINT RowOut
CHECK_DEADLOCK FALSE
