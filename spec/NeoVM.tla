------------------------------- MODULE NeoVM -------------------------------
(***************************************************************************)
(* NeoVM value heap and the operations that CONSUME a value recursively     *)
(* (properties C12, C14, C15).                                              *)
(*                                                                          *)
(* Code being described                                                     *)
(*   vm/neovm/types/neovm_value.go   Serialize, Deserialize/deserialize,    *)
(*                                   BuildParamToNative/buildParamToNative, *)
(*                                   CircularRefAndDepthDetection,          *)
(*                                   ConvertNeoVmValueHexString (Notify)    *)
(*   vm/neovm/types/{array,struct,map}_value.go  containers (reference      *)
(*                                   semantics; maps keyed by the key bytes, *)
(*                                   iterated in sorted key order)          *)
(*   vm/neovm/executor.go            NEWARRAY/NEWSTRUCT/NEWMAP/APPEND/       *)
(*                                   SETITEM/DUP (build the heap),          *)
(*   smartcontract/service/neovm     RuntimeSerialize, NativeInvoke,        *)
(*                                   RuntimeNotify (consume it)             *)
(*                                                                          *)
(* A VALUE is 0 (a leaf: integer/bytes/bool) or the number of a heap cell.  *)
(* A CELL is a container [kind, slots]; slots hold values, so cells can be  *)
(* shared and can form cycles through ANY slot position.  For a map the     *)
(* i-th slot is the value stored under key i (keys are leaves).             *)
(*                                                                          *)
(* Named deviation CycleCheckFirstOnly: the detector as coded returns from  *)
(* inside its `for` loop and therefore inspects only the first element of   *)
(* an array/struct and ONE element of a map — whichever Go's randomized map *)
(* iteration yields first (parameter `pick`).  FALSE = the intended design  *)
(* (every element is inspected).                                            *)
(***************************************************************************)
EXTENDS Integers, Sequences, FiniteSets, TLC

CONSTANTS
    NC,                  \* number of heap cells
    MaxSlots,            \* slots per cell in the model
    MaxDepth,            \* MAX_STRUCT_DEPTH (10)
    NotifyMax,           \* MAX_COUNT of ConvertNeoVmValueHexString, scaled to the model
    CycleCheckFirstOnly  \* named deviation (see above)

Cells == 1 .. NC
Values == 0 .. NC
Kinds == {"arr", "str", "map"}
CellType == [kind : Kinds, slots : UNION {[1 .. n -> Values] : n \in 0 .. MaxSlots}]

Max(S) == CHOOSE x \in S : \A y \in S : y <= x
Slots(h, c) == h[c].slots
Succ(h, c) == {Slots(h, c)[i] : i \in DOMAIN Slots(h, c)} \ {0}

-----------------------------------------------------------------------------
(* Declarative notions: reachability, cycles, depth *)
RECURSIVE ReachN(_, _, _)
ReachN(h, S, n) == IF n = 0 THEN S ELSE ReachN(h, S \cup UNION {Succ(h, c) : c \in S}, n - 1)
ReachFrom(h, v) == IF v = 0 THEN {} ELSE ReachN(h, {v}, NC)            \* cells reachable from v (v included)
OnCycle(h, c) == c \in ReachN(h, Succ(h, c), NC)
Cyclic(h, v) == \E c \in ReachFrom(h, v) : OnCycle(h, c)

\* highest value of the detector's depth counter over the unfolding of an ACYCLIC value (root = 0, element = +1)
RECURSIVE MaxLevel(_, _, _)
MaxLevel(h, v, d) == IF v = 0 \/ Len(Slots(h, v)) = 0 THEN d
                     ELSE Max({MaxLevel(h, Slots(h, v)[i], d + 1) : i \in DOMAIN Slots(h, v)})
TooDeep(h, v) == MaxLevel(h, v, 0) > MaxDepth
\* number of nested containers of an acyclic value
RECURSIVE Nest(_, _)
Nest(h, v) == IF v = 0 THEN 0 ELSE 1 + Max({0} \cup {Nest(h, Slots(h, v)[i]) : i \in DOMAIN Slots(h, v)})
WithinLimits(h, v) == ~Cyclic(h, v) /\ Nest(h, v) <= MaxDepth

-----------------------------------------------------------------------------
(* circularRefAndDepthDetection(visited, depth): TRUE = "circular reference or too deep".              *)
(* pick[c] = which slot of map c Go's iteration yields first (only read when CycleCheckFirstOnly).     *)
RECURSIVE DetAll(_, _, _, _)
DetAll(h, v, vis, d) ==
    IF d > MaxDepth THEN TRUE
    ELSE IF v = 0 THEN FALSE
    ELSE IF Len(Slots(h, v)) = 0 THEN FALSE
    ELSE IF v \in vis THEN TRUE
    ELSE \E i \in DOMAIN Slots(h, v) : DetAll(h, Slots(h, v)[i], vis \cup {v}, d + 1)

RECURSIVE DetFirst(_, _, _, _, _)
DetFirst(h, v, vis, d, pick) ==
    IF d > MaxDepth THEN TRUE
    ELSE IF v = 0 THEN FALSE
    ELSE IF Len(Slots(h, v)) = 0 THEN FALSE
    ELSE IF v \in vis THEN TRUE
    ELSE LET i == IF h[v].kind = "map" THEN ((pick[v] - 1) % Len(Slots(h, v))) + 1 ELSE 1
         IN DetFirst(h, Slots(h, v)[i], vis \cup {v}, d + 1, pick)

\* fo = "first element only" (the detector as coded); the model's own behaviour uses fo = CycleCheckFirstOnly
DetectF(h, v, pick, fo) == IF fo THEN DetFirst(h, v, {}, 0, pick) ELSE DetAll(h, v, {}, 0)
Detect(h, v, pick) == DetectF(h, v, pick, CycleCheckFirstOnly)

-----------------------------------------------------------------------------
(* The recursive consumers.  Every nested call starts with a fresh Detect (as coded); `path` is the set *)
(* of cells of the current recursion: entering a cell of the path again means the walk repeats forever. *)
(*   Serialize          : the repetition is cut by the 1 MiB size check after every completed element   *)
(*                        -> "errsize"; maps are walked in sorted key order (= slot order)              *)
(*   BuildParamToNative : no size check -> "diverge" (the process dies with a stack overflow);          *)
(*                        a map is refused ("err") after the detector                                   *)
RECURSIVE Walk(_, _, _, _, _, _), WalkSlots(_, _, _, _, _, _, _)
Walk(mode, h, v, path, pick, fo) ==
    IF DetectF(h, v, pick, fo) THEN "err"
    ELSE IF v = 0 THEN "ok"
    ELSE IF mode = "native" /\ h[v].kind = "map" THEN "err"
    ELSE IF v \in path THEN (IF mode = "ser" THEN "errsize" ELSE "diverge")
    ELSE WalkSlots(mode, h, v, 1, path \cup {v}, pick, fo)
WalkSlots(mode, h, v, i, path, pick, fo) ==
    IF i > Len(Slots(h, v)) THEN "ok"
    ELSE LET r == Walk(mode, h, Slots(h, v)[i], path, pick, fo)
         IN IF r # "ok" THEN r ELSE WalkSlots(mode, h, v, i + 1, path, pick, fo)

SerOutcome(h, v, pick) == Walk("ser", h, v, {}, pick, CycleCheckFirstOnly)
NativeOutcome(h, v, pick) == Walk("native", h, v, {}, pick, CycleCheckFirstOnly)

\* ConvertNeoVmValueHexString (RuntimeNotify): no detector; counts visited elements and gives up beyond
\* NotifyMax, so a cyclic value ends in an error; maps are refused.
RECURSIVE Notify(_, _, _), NotifySlots(_, _, _, _)
\* returns the element count after the walk, or -1 for an error
Notify(h, v, cnt) ==
    IF cnt > NotifyMax THEN -1
    ELSE IF v = 0 THEN cnt
    ELSE IF h[v].kind = "map" THEN -1
    ELSE NotifySlots(h, v, 1, cnt)
NotifySlots(h, v, i, cnt) ==
    IF i > Len(Slots(h, v)) THEN cnt
    ELSE LET r == Notify(h, Slots(h, v)[i], cnt + 1)
         IN IF r < 0 THEN r ELSE NotifySlots(h, v, i + 1, r)
NotifyOutcome(h, v) == IF Notify(h, v, 0) < 0 THEN "err" ELSE "ok"

-----------------------------------------------------------------------------
(* Trees (unfoldings of acyclic values) and their serialized form.                                      *)
(* tree = <<"L">> | <<kind, <<tree, ...>>>>                                                              *)
RECURSIVE Unfold(_, _)
Unfold(h, v) == IF v = 0 THEN <<"L">>
                ELSE <<h[v].kind, [i \in DOMAIN Slots(h, v) |-> Unfold(h, Slots(h, v)[i])]>>

TagOf(k) == CASE k = "arr" -> 128 [] k = "str" -> 129 [] OTHER -> 130
LeafBytes == <<2, 1, 1>>                                   \* integer 1: tag 0x02, length 1, 0x01
KeyBytes(i) == <<2, 1, i>>                                 \* map key i (an integer)
RECURSIVE Enc(_), EncSeq(_, _, _)
Enc(t) == IF t[1] = "L" THEN LeafBytes
          ELSE <<TagOf(t[1]), Len(t[2])>> \o EncSeq(t[1], t[2], 1)
EncSeq(k, ts, i) == IF i > Len(ts) THEN <<>>
                    ELSE (IF k = "map" THEN KeyBytes(i) ELSE <<>>) \o Enc(ts[i]) \o EncSeq(k, ts, i + 1)

(* The decoder (deserialize): recursive descent over bytes; result [ok, t, pos].                          *)
(* Leaves are decoded to <<"L">> when they are the integer 1, otherwise to <<"X", bytes>> (any other     *)
(* primitive).  Map keys must be primitive; a later equal key replaces the earlier one (not generated).   *)
Fail == [ok |-> FALSE, t |-> <<"L">>, pos |-> 0]
RECURSIVE Parse(_, _, _), ParseN(_, _, _, _, _, _)
VarCount(bs, p, cont) ==   \* [ok, n, pos]: the var-uint at p must be minimal; cont = it is the element count of a container
    IF p > Len(bs) THEN [ok |-> FALSE, n |-> 0, pos |-> 0]
    ELSE IF bs[p] < 253 THEN [ok |-> TRUE, n |-> bs[p], pos |-> p + 1]
    ELSE IF bs[p] = 253 THEN
        IF p + 2 > Len(bs) THEN [ok |-> FALSE, n |-> 0, pos |-> 0]
        ELSE LET n == bs[p + 1] + 256 * bs[p + 2]
             IN IF n < 253 THEN [ok |-> FALSE, n |-> 0, pos |-> 0] ELSE [ok |-> TRUE, n |-> n, pos |-> p + 3]
    ELSE IF bs[p] = 254 THEN
        IF p + 4 > Len(bs) \/ bs[p + 4] >= 128 THEN [ok |-> FALSE, n |-> 0, pos |-> 0]   \* >= 2^31 elements: input too short
        ELSE LET n == bs[p + 1] + 256 * bs[p + 2] + 65536 * bs[p + 3] + 16777216 * bs[p + 4]
             IN IF n <= 65535 THEN [ok |-> FALSE, n |-> 0, pos |-> 0] ELSE [ok |-> TRUE, n |-> n, pos |-> p + 5]
    ELSE \* 8-byte form
        IF p + 8 > Len(bs) THEN [ok |-> FALSE, n |-> 0, pos |-> 0]
        ELSE IF bs[p + 5] = 0 /\ bs[p + 6] = 0 /\ bs[p + 7] = 0 /\ bs[p + 8] = 0 THEN [ok |-> FALSE, n |-> 0, pos |-> 0]   \* irregular
        \* as coded: the element loop is `for i := 0; i < int(l); i++`; a count >= 2^63 is negative as int, the loop
        \* does not run and the container is decoded as EMPTY (no allocation depends on the count)
        ELSE IF cont /\ bs[p + 8] >= 128 THEN [ok |-> TRUE, n |-> 0, pos |-> p + 9]
        ELSE [ok |-> FALSE, n |-> 0, pos |-> 0]                                           \* more elements/bytes than the input holds
Parse(bs, p, depth) ==
    IF depth > 1024 \/ p > Len(bs) THEN Fail                    \* `depth > MAX_COUNT` is tested for every value
    ELSE LET tag == bs[p] IN
      IF tag = 1 THEN                                            \* bool: one byte 0/1
          IF p + 1 > Len(bs) \/ bs[p + 1] > 1 THEN Fail
          ELSE [ok |-> TRUE, t |-> <<"X", SubSeq(bs, p, p + 1)>>, pos |-> p + 2]
      ELSE IF tag \in {0, 2} THEN                                \* byte array / integer: var-bytes
          LET c == VarCount(bs, p + 1, FALSE) IN
          IF ~c.ok \/ c.n > Len(bs) - c.pos + 1 \/ (tag = 2 /\ c.n > 33) THEN Fail
          ELSE IF tag = 2 /\ c.n = 1 /\ bs[c.pos] = 1 THEN [ok |-> TRUE, t |-> <<"L">>, pos |-> c.pos + 1]
          ELSE [ok |-> TRUE, t |-> <<"X", SubSeq(bs, p, c.pos + c.n - 1)>>, pos |-> c.pos + c.n]
      ELSE IF tag \in {128, 129, 130} THEN
          LET c == VarCount(bs, p + 1, TRUE) IN
          IF ~c.ok THEN Fail
          ELSE ParseN(bs, c.pos, c.n, IF tag = 128 THEN "arr" ELSE IF tag = 129 THEN "str" ELSE "map", <<>>, depth)
      ELSE Fail
ParseN(bs, p, n, k, acc, depth) ==
    IF n = 0 THEN [ok |-> TRUE, t |-> <<k, acc>>, pos |-> p]
    ELSE IF k = "map" THEN
        LET key == Parse(bs, p, depth + 1) IN
        IF ~key.ok \/ key.t[1] \notin {"L", "X"} THEN Fail
        ELSE LET val == Parse(bs, key.pos, depth + 1) IN
             IF ~val.ok THEN Fail ELSE ParseN(bs, val.pos, n - 1, k, Append(acc, <<key.t, val.t>>), depth)
    ELSE LET e == Parse(bs, p, depth + 1) IN
         IF ~e.ok THEN Fail ELSE ParseN(bs, e.pos, n - 1, k, Append(acc, e.t), depth)

\* the decoded form of a map carries the keys; bring a generated tree into the same form for comparison
RECURSIVE WithKeys(_)
WithKeys(t) == IF t[1] = "L" THEN t
               ELSE IF t[1] = "map" THEN <<"map", [i \in DOMAIN t[2] |-> <<IF i = 1 THEN <<"L">> ELSE <<"X", KeyBytes(i)>>, WithKeys(t[2][i])>>]>>
               ELSE <<t[1], [i \in DOMAIN t[2] |-> WithKeys(t[2][i])]>>
Decode(bs) == Parse(bs, 1, 0)

-----------------------------------------------------------------------------
(* Size limits (constants of vm/neovm/constants and vm/neovm/types).  A "wide" value is one container of   *)
(* kind k holding n leaves (the integer 1; a map holds the keys 1..n), possibly nested inside an outer     *)
(* array (pos 0 = top level, 1 = outer [W], 2 = outer [1, W]); a "blob" is one byte array of length n.     *)
(* ArrayValue/StructValue.Append refuse the element number MaxArraySize+1, so the largest array/struct     *)
(* has exactly MaxArraySize elements; maps have no element limit; a byte array holds at most MaxItemBytes; *)
(* Serialize refuses an output above MaxItemBytes.  Whatever can be built and serialized must round-trip.  *)
MaxArraySize == 1024
MaxItemBytes == 1048576
VarUintLen(n) == IF n < 253 THEN 1 ELSE IF n <= 65535 THEN 3 ELSE 5
\* serialized length of the integer key/leaf i (1 <= i < 32768): tag, length, little-endian two's complement bytes
IntLen(i) == IF i < 128 THEN 3 ELSE 4
RECURSIVE KeysLen(_)
KeysLen(n) == IF n = 0 THEN 0 ELSE IntLen(n) + KeysLen(n - 1)
WideBuildable(k, n) == k = "map" \/ n <= MaxArraySize
WideSerLen(k, n, pos) == (1 + VarUintLen(n) + 3 * n + (IF k = "map" THEN KeysLen(n) ELSE 0))
                         + (IF pos = 0 THEN 0 ELSE IF pos = 1 THEN 2 ELSE 5)
BlobBuildable(n) == n <= MaxItemBytes
BlobSerLen(n) == 1 + VarUintLen(n) + n
\* verdict of the design for a limit row: can it be built, is it serialized, and then it must round-trip
LimitVerdict(r) ==
    IF r.fam = "wide"
    THEN [build |-> WideBuildable(r.k, r.n), ser |-> WideBuildable(r.k, r.n) /\ WideSerLen(r.k, r.n, r.pos) <= MaxItemBytes,
          len |-> WideSerLen(r.k, r.n, r.pos)]
    ELSE [build |-> BlobBuildable(r.n), ser |-> BlobBuildable(r.n) /\ BlobSerLen(r.n) <= MaxItemBytes, len |-> BlobSerLen(r.n)]
LimitRows ==
    [fam : {"wide"}, k : Kinds, n : {0, 1, MaxArraySize - 1, MaxArraySize, MaxArraySize + 1}, pos : 0 .. 2]
    \cup [fam : {"blob"}, k : {"bytes"}, pos : {0},
           n : {0, 252, 253, 65535, 65536, MaxItemBytes - 7, MaxItemBytes - 6, MaxItemBytes - 5, MaxItemBytes, MaxItemBytes + 1}]
=============================================================================
