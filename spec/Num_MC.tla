------------------------------ MODULE Num_MC ------------------------------
EXTENDS Num, Json

SeqsUpTo(A, n) == UNION {[1..k -> A] : k \in 0..n}

\* ---- magnitudes as digit strings: 2^k + d around every sign / byte-length boundary
RECURSIVE AddC(_, _)
AddC(ds, carry) == IF carry = 0 THEN ds
                   ELSE IF ds = <<>> THEN CarryDigits(carry)
                   ELSE LET t == ds[1] + carry IN <<t % 256>> \o AddC(Tail(ds), t \div 256)
RECURSIVE SubB(_, _)
SubB(ds, b) == IF b = 0 THEN ds
               ELSE LET t == ds[1] - b IN IF t >= 0 THEN <<t>> \o Tail(ds) ELSE <<t + 256>> \o SubB(Tail(ds), 1)
Pow2(k) == PadTo(<<>>, k \div 8) \o <<2 ^ (k % 8)>>
Around(ds, D) == {Strip(AddC(ds, d)) : d \in 0..D} \cup (IF ds = <<>> THEN {} ELSE {Strip(SubB(ds, d)) : d \in 1..D})
KsQ == {7, 8, 15, 16, 23, 24, 31, 32, 63, 64, 127, 128, 255, 256}
KsT == KsQ \cup {39, 40, 47, 48, 55, 56, 71, 72, 119, 120, 135, 136, 191, 192, 247, 248, 263, 264}
SmallMags(n) == {Strip(LEBytes(v, 4)) : v \in 0..n}
MagsQ == SmallMags(3) \cup UNION {Around(Pow2(k), 1) : k \in KsQ}
MagsT == SmallMags(300) \cup UNION {Around(Pow2(k), 2) : k \in KsT}
SMs(M) == {SM(FALSE, m) : m \in M} \cup {SM(TRUE, m) : m \in M \ {<<>>}}

\* ---- byte strings offered to the decoders: short strings over a sign-boundary alphabet, every minimal
\* encoding, and every minimal encoding with 1..2 redundant sign bytes (non-minimal forms)
AlphaB == {0, 1, 127, 128, 255}
Redundant(bs, neg) == {bs \o <<IF neg THEN 255 ELSE 0>>, bs \o (IF neg THEN <<255, 255>> ELSE <<0, 0>>)}
NeoStrings(M) == SeqsUpTo(AlphaB, 3) \cup {NeoEnc(x) : x \in SMs(M)} \cup UNION {Redundant(NeoEnc(x), x.neg) : x \in SMs(M)}
I128Strings(M) == {SignExt(NeoEnc(x), 16, x.neg) : x \in {y \in SMs(M) : Width(y) <= 16}}
                  \cup {[i \in 1..16 |-> IF i = j THEN b ELSE c] : j \in {1, 8, 16}, b \in {0, 1, 127, 128, 255}, c \in {0, 255}}

\* ---- native varuint: u64 magnitudes and buffers (valid, padded, negative, too large, irregular prefix, truncated)
U64Mags(M) == {m \in M : Len(m) <= 8}
NatBufs(M) == {NatEnc(m) : m \in U64Mags(M)}
              \cup {EncVarBytes(bs) : bs \in NeoStrings(M)}
              \cup {<<253, Len(bs), 0>> \o bs : bs \in {NeoEnc(SM(FALSE, m)) : m \in U64Mags(M)}}
              \cup {SubSeq(NatEnc(m), 1, Len(NatEnc(m)) - 1) : m \in U64Mags(M)}
              \cup {NatEnc(m) \o <<7>> : m \in U64Mags(M)}

\* ---- balances: multiples of 10^9 up to and beyond (2^64-1)*10^9, fractional balances, boundaries
U64Edge == {<<>>, <<1>>, <<2>>, <<255>>, <<0, 1>>, Strip(SubB(Pow2(64), 1)), Strip(SubB(Pow2(64), 2)), Pow2(63), Pow2(32)}
Whole == {Mul1e9(u) : u \in U64Edge} \cup {Mul1e9(Pow2(64)), Mul1e9(Strip(AddC(Pow2(64), 1)))}
BalMags(M) == Whole \cup UNION {Around(w, 1) : w \in Whole} \cup M
BalItems(M) == {BalEnc(m).v : m \in {x \in BalMags(M) : BalEnc(x).ok}}
               \cup {<<ver>> \o EncVarBytes(v) : ver \in {0, 1, 2, 255}, v \in {<<>>, <<1>>, <<0, 202, 154, 59>>, <<0, 202, 154, 59, 0>>,
                                                     <<1, 2, 3, 4, 5, 6, 7>>, <<1, 2, 3, 4, 5, 6, 7, 8>>, <<1, 2, 3, 4, 5, 6, 7, 8, 9>>,
                                                     <<255>>, <<0, 128>>, <<255, 255, 255, 255, 255, 255, 255, 255>>}}
               \cup {<<>>, <<0>>, <<1>>, <<0, 253, 8, 0, 1, 0, 0, 0, 0, 0, 0, 0>>, <<1, 5, 1, 2>>}

CallsOf(M) == {[name |-> "BigIntToNeoBytes", x |-> x] : x \in SMs(M)}
              \cup {[name |-> "BigIntFromNeoBytes", b |-> bs] : bs \in NeoStrings(M)}
              \cup {[name |-> "I128FromBigInt", x |-> x] : x \in SMs(M)}
              \cup {[name |-> "I128ToBigInt", b |-> bs] : bs \in I128Strings(M)}
              \cup {[name |-> "EncodeVarUint", b |-> m] : m \in U64Mags(M)}
              \cup {[name |-> "DecodeVarUint", b |-> b] : b \in NatBufs(M)}
              \cup {[name |-> "BalanceToItem", b |-> m] : m \in BalMags(M)}
              \cup {[name |-> "BalanceFromItem", b |-> b] : b \in BalItems(M)}
CallsQ == CallsOf(MagsQ)
CallsT == CallsOf(MagsT)

\* ---- layer (D) agrees with the mathematical definition (I) on everything TLC's integers can hold
SmallInts == (-1100..1100) \cup UNION {{s * (p + d) : d \in -3..3, s \in {-1, 1}} : p \in {32768, 65536, 8388608, 8323072, 65536 * 64, 70000}}
SmallIntsOK == \A v \in {w \in SmallInts : -8388608 <= w /\ w < 8388608} : LayersAgreeOn(v)
SmallBytesOK == \A bs \in SeqsUpTo({0, 1, 2, 127, 128, 129, 254, 255}, 3) \cup SeqsUpTo(0..255, 1) : LayersAgreeOnBytes(bs)
ASSUME SmallIntsOK
ASSUME SmallBytesOK
\* 10^9 arithmetic on digit strings agrees with integer arithmetic where TLC can hold the numbers
ASSUME \A v \in {0, 1, 999, 1000, 999999, 1000000, 999999999, 1000000000, 1000000001, 2000000000, 2147483647} :
          LET d == Div1e9(Strip(LEBytes(v, 4))) IN /\ d.whole = (v % 1000000000 = 0)
                                                   /\ d.whole => d.q = Strip(LEBytes(v \div 1000000000, 4))
ASSUME Mul1e9(<<2>>) = Strip(LEBytes(2000000000, 4))

Row == PrintT(<<"ROW", ToJson([call |-> call', res |-> res'])>>)
=============================================================================
