----------------------------- MODULE Base58_MC -----------------------------
(* Model-checking configuration of Base58: the corruption classes of the C22 statement, generated from the  *)
(* addresses of Base58_Tab (a module written by props/C22.py: seeded addresses, the checksums logged by the   *)
(* harness's independent sha256, arbitrary strings).                                                          *)
EXTENDS Base58, Json, Base58_Tab

Enc(a) == Encode(a)
Min(a, b) == IF a < b THEN a ELSE b
PosQ(L) == {1, 2, L \div 2, L - 1, L}
PosT(L) == 1..L
NextChar(c) == Alphabet[((DigitOf(c) + 1) % 58) + 1]
SubstChars(c) == {NextChar(c), 49, 122, 48, 73, 108, 79, 32, 43, 45}      \* next digit, '1', 'z', and the non-alphabet 0 I l O ' ' + -
Replace(s, p, c) == [i \in 1..Len(s) |-> IF i = p THEN c ELSE s[i]]
Delete(s, p) == SubSeq(s, 1, p - 1) \o SubSeq(s, p + 1, Len(s))
Insert(s, p, c) == SubSeq(s, 1, p - 1) \o <<c>> \o SubSeq(s, p, Len(s))
Swap(s, p) == [i \in 1..Len(s) |-> IF i = p THEN s[p + 1] ELSE IF i = p + 1 THEN s[p] ELSE s[i]]
FlipByte(bs, j) == [i \in 1..Len(bs) |-> IF i = j THEN (bs[i] + 1) % 256 ELSE bs[i]]
Case(kind, s, base) == [fn |-> "AddressFromBase58", kind |-> kind, s |-> s, base |-> base]

B58CasesOf(a, Pos(_)) ==
    LET s == Enc(a)
        L == Len(s)
        cks == CksTab[<<VERSION>> \o a]
    IN {Case("valid", s, s)}
       \cup UNION {{Case("substitute", Replace(s, p, c), s) : c \in SubstChars(s[p])} : p \in Pos(L)}
       \cup {Case("delete", Delete(s, p), s) : p \in Pos(L)}
       \cup {Case("insert", Insert(s, p, c), s) : p \in (Pos(L) \cup {L + 1}), c \in {49, 65, 122, 48}}
       \cup {Case("transpose", Swap(s, p), s) : p \in Pos(L) \ {L}}
       \cup {Case("leading-1", <<49>> \o s, s), Case("leading-1", <<49, 49>> \o s, s)}
       \cup {Case("truncate", SubSeq(s, 1, k), s) : k \in {0, 1, L \div 2, L - 1}}
       \cup {Case("wrong-version", EncodeBytes(Payload(v, a)), s) : v \in {0, 22, 24}}
       \cup {Case("wrong-checksum", EncodeBytes(<<VERSION>> \o a \o FlipByte(cks, j)), s) : j \in 1..4}
       \cup {Case("short-address", EncodeBytes(Payload(VERSION, SubSeq(a, 1, ADDRLEN - 1))), s),
             Case("long-address", EncodeBytes(Payload(VERSION, a \o <<0>>)), s)}
HexCase(kind, s, base) == [fn |-> "AddressFromHexString", kind |-> kind, s |-> s, base |-> base]
Upper(s) == [i \in 1..Len(s) |-> IF s[i] \in 97..122 THEN s[i] - 32 ELSE s[i]]
HexCasesOf(a) ==
    LET h == HexEncode(a) IN
    {HexCase("valid", h, h), HexCase("upper", Upper(h), h), HexCase("prefix-0x", <<48, 120>> \o h, h),
     HexCase("delete", Delete(h, 1), h), HexCase("delete2", SubSeq(h, 3, Len(h)), h), HexCase("insert2", <<48, 48>> \o h, h),
     HexCase("empty", <<>>, h)}
    \cup {HexCase("substitute", Replace(h, p, c), h) : p \in {1, 20, 40}, c \in {103, 71, 32, 120}}

CasesFor(Pos(_)) ==
    UNION {B58CasesOf(a, Pos) : a \in AddrsGen}
    \cup UNION {HexCasesOf(a) : a \in AddrsGen}
    \cup {[fn |-> "ToBase58", addr |-> a] : a \in AddrsGen}
    \cup {[fn |-> "ToHexString", addr |-> a] : a \in AddrsGen}
    \cup {Case("arbitrary", s, <<>>) : s \in ArbGen}
    \cup {Case("too-long", [i \in 1..(MAXLEN + 1) |-> 49], <<>>)}
CasesQ == CasesFor(PosQ)
CasesT == CasesFor(PosT)

Row == PrintT(<<"ROW", ToJson([call |-> call', res |-> res'])>>)
=============================================================================
