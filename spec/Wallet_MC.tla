----------------------------- MODULE Wallet_MC -----------------------------
EXTENDS Wallet, Json
Ids12 == {1, 2}
Ids123 == {1, 2, 3}
NoNew == <<>>
NewSeq == <<>>
NewSeq2 == <<2>>
NewSeq3 == <<3>>
NewSeq34 == <<3, 4>>
NewSeq23 == <<2, 3>>
LabelsX == {"", "x"}
LabelsXY == {"", "x", "y"}
Pwds2 == {"p", "q"}
Schemes2 == {"SHA256withECDSA", "SHA3-256withECDSA"}
ActsAll == {"New", "Import", "Delete", "SetDefault", "SetLabel", "ChangePassword", "ChangeScheme", "Reload", "SetFault", "ClearFault"}
ActsNoNew == ActsAll \ {"New"}

OpsConc == (ActsAll \ {"Reload", "SetFault", "ClearFault"}) \cup {"Open"}
T1 == {1}
T12 == {1, 2}
NoSplit == {}
SplitImport == {"Import"}
SplitDelete == {"Import", "Delete"}
SplitChangePassword == {"Import", "ChangePassword"}
SplitSetDefault == {"Import", "SetDefault"}
SplitSetLabel == {"Import", "SetLabel"}

Edge == PrintT(<<"EDGE", ToJson([from |-> State, act |-> act', who |-> who', to |-> State'])>>)
\* a prepared wallet for the reference two-thread configuration Wallet_C38c.cfg (ImportIds = {1}, NewIdSeq = <<2>>,
\* MaxObj = 3): account 1 (imported, label "x", default) and account 2 (created), both with password "p".
\* props/_wallet.py generates the prepared wallets of a run (module Wallet_Seeds) from reachable states of the
\* sequential model, together with the call sequence that leads there.
SeedRef == {[accts |-> <<1, 2>>,
             objs |-> <<[id |-> 1, label |-> "x", dflt |-> TRUE, scheme |-> "SHA256withECDSA", pwd |-> "p", enc |-> "low"],
                        [id |-> 2, label |-> "", dflt |-> FALSE, scheme |-> "SHA256withECDSA", pwd |-> "p", enc |-> "low"], Null>>,
             addrIdx |-> <<1, 2>>, labelIdx |-> ("" :> 0 @@ "x" :> 1 @@ "x_1" :> 0), dfltPtr |-> 1, nnew |-> 1, fault |-> FALSE]}
InitRef == InitFrom(SeedRef)

EdgeN == PrintT(<<"EDGE", ToJson([from |-> StateN, act |-> act', who |-> who', to |-> StateN'])>>)
InitOutN == (TLCGet("level") = 1) => PrintT(<<"INIT", ToJson(StateN)>>)
InitOut == (TLCGet("level") = 1) => PrintT(<<"INIT", ToJson(State)>>)
=============================================================================
