----------------------------- MODULE Wallet_MC -----------------------------
EXTENDS Wallet, Json
Ids12 == {1, 2}
Ids123 == {1, 2, 3}
NoNew == <<>>
NewSeq == <<>>
NewSeq2 == <<2>>
NewSeq3 == <<3>>
NewSeq34 == <<3, 4>>
NewSeq23 == <<2, 3>>
LabelsX == {"", "x"}
LabelsXY == {"", "x", "y"}
Pwds2 == {"p", "q"}
Schemes2 == {"SHA256withECDSA", "SHA3-256withECDSA"}
ActsAll == {"New", "Import", "Delete", "SetDefault", "SetLabel", "ChangePassword", "ChangeScheme", "Reload", "SetFault", "ClearFault"}
ActsNoNew == ActsAll \ {"New"}

OpsConc == (ActsAll \ {"Reload", "SetFault", "ClearFault"}) \cup {"Open"}
T1 == {1}
T12 == {1, 2}
NoSplit == {}
SplitImport == {"Import"}
SplitDelete == {"Import", "Delete"}
SplitChangePassword == {"Import", "ChangePassword"}
SplitSetDefault == {"Import", "SetDefault"}
SplitSetLabel == {"Import", "SetLabel"}

Edge == PrintT(<<"EDGE", ToJson([from |-> State, act |-> act', who |-> who', to |-> State'])>>)
InitOut == (TLCGet("level") = 1) => PrintT(<<"INIT", ToJson(State)>>)
=============================================================================
