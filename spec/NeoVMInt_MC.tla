---------------------------- MODULE NeoVMInt_MC ----------------------------
(***************************************************************************)
(* TLC side of C13 (integer opcodes), three uses selected by the cfg:       *)
(*                                                                          *)
(*  NeoVMInt_Laws.cfg   a SMALL VM (Bound = 2^5, MaxShift = 5): for every   *)
(*      opcode and every operand pair of a range that reaches beyond the    *)
(*      bound, the result function of NeoVMInt satisfies the defining laws  *)
(*      (Euclid for truncated division, sign of the remainder, shifts as    *)
(*      repeated doubling/halving, bitwise limb semantics against the       *)
(*      community Bitwise module, order laws, bound/fault discipline).      *)
(*      This is model checking of the oracle itself.                        *)
(*  NeoVMInt_Rows.cfg   enumerates the (opcode, operand class, operand      *)
(*      class) rows the Go harness executes; classes are symbolic           *)
(*      s*2^k + d (TLC cannot hold the values).                             *)
(*  generated NeoVMIntBit module: digit-wise evaluation of AND/OR/XOR on    *)
(*      the 16-bit limbs of the recorded operands (ROW lines carry the      *)
(*      result digits, which Apalache ties back to the big integers).       *)
(***************************************************************************)
EXTENDS Integers, Sequences, FiniteSets, TLC, Json, Bitwise

CONSTANTS SmallBound, SmallShift, SmallShrCount, Range, ClassSet, CoreSet, AliasSet

VARIABLE row

I == INSTANCE NeoVMInt WITH Bound <- SmallBound, MaxShift <- SmallShift, MaxShrCount <- SmallShrCount,
                            CmpUnbounded <- FALSE, InvertUnchecked <- FALSE

-----------------------------------------------------------------------------
(* digit-wise bitwise operation (shared by the law check and the limb rows) *)
RECURSIVE BitsOp(_, _, _, _)
BitsOp(op, x, y, n) == IF n = 0 THEN 0
                       ELSE I!BitOp(op, x % 2, y % 2) + 2 * BitsOp(op, x \div 2, y \div 2, n - 1)
LimbsOp(op, A, B, bits) == [i \in DOMAIN A |-> BitsOp(op, A[i], B[i], bits)]

(* two's-complement digits of a small integer: 18 digits in base 2 (least significant first) *)
RECURSIVE Digits(_, _, _)
Digits(v, W, n) == IF n = 0 THEN <<>> ELSE <<v % W>> \o Digits(v \div W, W, n - 1)   \* TLC: \div is floor, % is non-negative
Val18(W, L) == I!LimbVal18(W, L[1], L[2], L[3], L[4], L[5], L[6], L[7], L[8], L[9], L[10], L[11], L[12],
                           L[13], L[14], L[15], L[16], L[17], L[18])

(* independent reference for the bitwise opcodes: community Bitwise module on naturals + complement laws *)
NotI(x) == -x - 1
RefAnd(a, b) == IF a >= 0 /\ b >= 0 THEN a & b
                ELSE IF a < 0 /\ b < 0 THEN NotI(NotI(a) | NotI(b))
                ELSE IF a < 0 THEN b - (b & NotI(a))
                ELSE a - (a & NotI(b))
RefBit(op, a, b) == CASE op = "AND" -> RefAnd(a, b)
                      [] op = "OR"  -> a + b - RefAnd(a, b)
                      [] OTHER      -> a + b - 2 * RefAnd(a, b)

RECURSIVE Dbl(_, _)
Dbl(a, n) == IF n = 0 THEN a ELSE Dbl(2 * a, n - 1)
RECURSIVE Hlv(_, _)
Hlv(a, n) == IF n = 0 THEN a ELSE Hlv(a \div 2, n - 1)          \* floor halving

-----------------------------------------------------------------------------
(* Laws of the result functions on the small VM *)
LawBin(op, a, b) ==
    LET r == I!ResArith(op, a, b)
        fit == I!Fits(a) /\ I!Fits(b)
    IN  /\ r.f \in BOOLEAN
        /\ ~fit => r.f                                   \* operands outside the bound fault
        /\ ~r.f => I!Fits(r.v)                          \* a delivered result is within the bound
        /\ (fit /\ op = "ADD") => (r.f <=> ~I!Fits(a + b)) /\ (~r.f => r.v = a + b)
        /\ (fit /\ op = "SUB") => (r.f <=> ~I!Fits(a - b)) /\ (~r.f => r.v + b = a)
        /\ (fit /\ op = "MUL") => (r.f <=> ~I!Fits(a * b)) /\ (~r.f => r.v = a * b)
        /\ (fit /\ op \in {"DIV", "MOD"} /\ b = 0) => r.f
        /\ (fit /\ op \in {"DIV", "MOD"} /\ b # 0) =>
              LET q == I!Quo(a, b)
                  m == I!Rem(a, b)
              IN  /\ a = b * q + m                       \* Euclid
                  /\ I!Abs(m) < I!Abs(b)
                  /\ (m = 0 \/ I!Sgn(m) = I!Sgn(a))      \* remainder takes the dividend's sign
                  /\ I!Abs(q) = I!Abs(a) \div I!Abs(b)   \* quotient truncates toward zero
                  /\ (q = 0 \/ I!Sgn(q) = I!Sgn(a) * I!Sgn(b))
                  /\ ~r.f /\ r.v = (IF op = "DIV" THEN q ELSE m)   \* |q| <= |a|, |m| < |b|: always fits
        /\ (fit /\ op = "MAX") => ~r.f /\ r.v >= a /\ r.v >= b /\ r.v \in {a, b}
        /\ (fit /\ op = "MIN") => ~r.f /\ r.v <= a /\ r.v <= b /\ r.v \in {a, b}
        /\ (fit /\ op = "SHL") => IF b < 0 \/ b > SmallShift THEN r.f
                                  ELSE (r.f <=> ~I!Fits(Dbl(a, b))) /\ (~r.f => r.v = Dbl(a, b))
        /\ (fit /\ op = "SHR") => IF b < 0 \/ b > SmallShrCount THEN r.f
                                  ELSE ~r.f /\ r.v = Hlv(a, b)
        /\ (fit /\ op \in I!CmpOps) => ~r.f /\ r.v \in {0, 1}
        /\ (fit /\ op = "NUMEQUAL") => (r.v = 1 <=> a = b)
        /\ (fit /\ op = "NUMNOTEQUAL") => (r.v = 1 <=> a # b)
        /\ (fit /\ op = "LT") => (r.v = 1 <=> a < b) /\ r.v = I!ResArith("GT", b, a).v
        /\ (fit /\ op = "LTE") => (r.v = 1 <=> ~(b < a)) /\ r.v = I!ResArith("GTE", b, a).v
        /\ (fit /\ op = "GT") => r.v = 1 - I!ResArith("LTE", a, b).v
        /\ (fit /\ op = "GTE") => r.v = 1 - I!ResArith("LT", a, b).v

LawBit(op, a, b) ==
    \* the limb semantics (18 binary digits here, 18 16-bit digits in the real table) is the infinite
    \* two's-complement operation
    LET A == Digits(a, 2, 18)
        B == Digits(b, 2, 18)
    IN  /\ Val18(2, A) = a /\ Val18(2, B) = b
        /\ Val18(2, LimbsOp(op, A, B, 1)) = RefBit(op, a, b)
        \* inside a 16-bit digit the operation is the community module's
        /\ (a >= 0 /\ b >= 0) =>
              LET x == (a * 977) % 65536
                  y == (b * 1499 + 65535 - a) % 65536
              IN BitsOp(op, x, y, 16) = (CASE op = "AND" -> x & y [] op = "OR" -> x | y [] OTHER -> x ^^ y)

LawUn(op, a) ==
    LET r == I!ResUn(op, a)
    IN  /\ ~I!Fits(a) => r.f
        /\ ~r.f => I!Fits(r.v)
        /\ (I!Fits(a) /\ op = "INC") => (r.f <=> ~I!Fits(a + 1)) /\ (~r.f => r.v - 1 = a)
        /\ (I!Fits(a) /\ op = "DEC") => (r.f <=> ~I!Fits(a - 1)) /\ (~r.f => r.v + 1 = a)
        /\ (I!Fits(a) /\ op = "NEGATE") => ~r.f /\ r.v + a = 0
        /\ (I!Fits(a) /\ op = "ABS") => ~r.f /\ r.v >= 0 /\ r.v \in {a, -a}
        /\ (I!Fits(a) /\ op = "SIGN") => ~r.f /\ r.v \in {-1, 0, 1} /\ r.v * I!Abs(a) = a
        /\ (I!Fits(a) /\ op = "NZ") => ~r.f /\ (r.v = 0 <=> a = 0) /\ r.v \in {0, 1}
        /\ (I!Fits(a) /\ op = "INVERT") => (r.f <=> ~I!Fits(-a - 1)) /\
                                           (~r.f => Val18(2, LimbsOp("XOR", Digits(a, 2, 18), Digits(-1, 2, 18), 1)) = r.v)

\* stack transformer of a binary opcode and its frame law (kept copies a, b below the operands are unchanged)
StackStep(op, stk) == LET n == Len(stk) r == I!ResArith(op, stk[n - 1], stk[n])
                      IN IF r.f THEN <<>> ELSE Append(SubSeq(stk, 1, n - 2), r.v)
LawFrame(op, a, b) == LET s == StackStep(op, <<a, b, a, b>>)
                      IN s # <<>> => (I!Kept(a, s[1]) /\ I!Kept(b, s[2]) /\ Len(s) = 3)
Laws == CASE row.kind = "bin" -> LawBin(row.op, row.a, row.b) /\ LawFrame(row.op, row.a, row.b)
          [] row.kind = "bit" -> LawBit(row.op, row.a, row.b)
          [] row.kind = "un"  -> LawUn(row.op, row.a)
          [] OTHER -> LET r == I!ResWithin(row.a, row.b, row.c)
                      IN (~(I!Fits(row.a) /\ I!Fits(row.b) /\ I!Fits(row.c)) => r.f) /\
                         ((I!Fits(row.a) /\ I!Fits(row.b) /\ I!Fits(row.c)) =>
                              ~r.f /\ (r.v = 1 <=> (row.b <= row.a /\ row.a < row.c)))

InitLaws ==
    \/ row \in [kind : {"bin"}, op : I!BinOps \ I!BitOps, a : Range, b : Range]
    \/ row \in [kind : {"bit"}, op : I!BitOps, a : Range, b : Range]
    \/ row \in [kind : {"un"}, op : I!UnOps, a : Range]
    \/ row \in [kind : {"within"}, a : CoreSet, b : CoreSet, c : CoreSet]

-----------------------------------------------------------------------------
(* Row enumeration: operand classes are records [n |-> name, s |-> sign, k |-> exponent, d |-> offset],  *)
(* value = s * 2^k + d.                                                                                   *)
InitRows ==
    \/ row \in [kind : {"bin"}, op : I!BinOps, a : ClassSet, b : ClassSet]
    \/ row \in [kind : {"un"}, op : I!UnOps, a : ClassSet]
    \/ row \in [kind : {"within"}, op : {"WITHIN"}, a : CoreSet, b : CoreSet, c : CoreSet]
    \* "operands are values" rows: a second reference to each operand is kept (DUP / alt stack / array element)
    \/ row \in [kind : {"alias"}, op : I!BinOps, a : AliasSet, b : AliasSet, keep : {"dup", "alt", "arr"}]
    \/ row \in [kind : {"alias"}, op : I!UnOps, a : AliasSet, keep : {"dup", "alt", "arr"}]
RowOut == PrintT(<<"ROW", ToJson(row)>>)

Stutter == UNCHANGED row

-----------------------------------------------------------------------------
(* constants for the cfgs *)
RangeSmall == -36 .. 36
RangeTiny == -18 .. 18
CoreSmall == {-33, -32, -31, -1, 0, 1, 31, 32}
CoreTiny == {-17, -16, -15, -1, 0, 1, 15, 16}
ClassesAll == {
  [n |-> "0", s |-> 0, k |-> 0, d |-> 0],
  [n |-> "1", s |-> 0, k |-> 0, d |-> 1],
  [n |-> "-1", s |-> 0, k |-> 0, d |-> -1],
  [n |-> "2", s |-> 0, k |-> 0, d |-> 2],
  [n |-> "-2", s |-> 0, k |-> 0, d |-> -2],
  [n |-> "3", s |-> 0, k |-> 0, d |-> 3],
  [n |-> "-3", s |-> 0, k |-> 0, d |-> -3],
  [n |-> "MinI64", s |-> -1, k |-> 63, d |-> 0],
  [n |-> "MinI64+1", s |-> -1, k |-> 63, d |-> 1],
  [n |-> "MinI64-1", s |-> -1, k |-> 63, d |-> -1],
  [n |-> "MaxI64", s |-> 1, k |-> 63, d |-> -1],
  [n |-> "MaxI64-1", s |-> 1, k |-> 63, d |-> -2],
  [n |-> "MaxI64+1", s |-> 1, k |-> 63, d |-> 0],
  [n |-> "2^31", s |-> 1, k |-> 31, d |-> 0],
  [n |-> "-2^32", s |-> -1, k |-> 32, d |-> 0],
  [n |-> "2^64", s |-> 1, k |-> 64, d |-> 0],
  [n |-> "-2^64", s |-> -1, k |-> 64, d |-> 0],
  [n |-> "2^64-1", s |-> 1, k |-> 64, d |-> -1],
  [n |-> "2^128", s |-> 1, k |-> 128, d |-> 0],
  [n |-> "2^255-1", s |-> 1, k |-> 255, d |-> -1],
  [n |-> "2^255", s |-> 1, k |-> 255, d |-> 0],
  [n |-> "-2^255", s |-> -1, k |-> 255, d |-> 0],
  [n |-> "2^256-1", s |-> 1, k |-> 256, d |-> -1],
  [n |-> "-(2^256-1)", s |-> -1, k |-> 256, d |-> 1],
  [n |-> "2^256", s |-> 1, k |-> 256, d |-> 0],
  [n |-> "-2^256", s |-> -1, k |-> 256, d |-> 0],
  [n |-> "63", s |-> 0, k |-> 0, d |-> 63],
  [n |-> "64", s |-> 0, k |-> 0, d |-> 64],
  [n |-> "255", s |-> 0, k |-> 0, d |-> 255],
  [n |-> "256", s |-> 0, k |-> 0, d |-> 256],
  [n |-> "257", s |-> 0, k |-> 0, d |-> 257] }
ClassesQuick == {
  [n |-> "0", s |-> 0, k |-> 0, d |-> 0],
  [n |-> "1", s |-> 0, k |-> 0, d |-> 1],
  [n |-> "-1", s |-> 0, k |-> 0, d |-> -1],
  [n |-> "2", s |-> 0, k |-> 0, d |-> 2],
  [n |-> "-3", s |-> 0, k |-> 0, d |-> -3],
  [n |-> "MinI64", s |-> -1, k |-> 63, d |-> 0],
  [n |-> "MinI64+1", s |-> -1, k |-> 63, d |-> 1],
  [n |-> "MaxI64", s |-> 1, k |-> 63, d |-> -1],
  [n |-> "MaxI64+1", s |-> 1, k |-> 63, d |-> 0],
  [n |-> "-2^64", s |-> -1, k |-> 64, d |-> 0],
  [n |-> "2^255", s |-> 1, k |-> 255, d |-> 0],
  [n |-> "2^256-1", s |-> 1, k |-> 256, d |-> -1],
  [n |-> "-(2^256-1)", s |-> -1, k |-> 256, d |-> 1],
  [n |-> "2^256", s |-> 1, k |-> 256, d |-> 0],
  [n |-> "-2^256", s |-> -1, k |-> 256, d |-> 0],
  [n |-> "63", s |-> 0, k |-> 0, d |-> 63],
  [n |-> "64", s |-> 0, k |-> 0, d |-> 64],
  [n |-> "256", s |-> 0, k |-> 0, d |-> 256],
  [n |-> "257", s |-> 0, k |-> 0, d |-> 257] }
ClassesAlias == {
  [n |-> "1", s |-> 0, k |-> 0, d |-> 1],
  [n |-> "64", s |-> 0, k |-> 0, d |-> 64],
  [n |-> "MaxI64+1", s |-> 1, k |-> 63, d |-> 0],
  [n |-> "MinI64-1", s |-> -1, k |-> 63, d |-> -1],
  [n |-> "-2^64", s |-> -1, k |-> 64, d |-> 0],
  [n |-> "2^128", s |-> 1, k |-> 128, d |-> 0],
  [n |-> "2^255", s |-> 1, k |-> 255, d |-> 0],
  [n |-> "2^256-1", s |-> 1, k |-> 256, d |-> -1],
  [n |-> "-(2^256-1)", s |-> -1, k |-> 256, d |-> 1] }
ClassesCore == {
  [n |-> "0", s |-> 0, k |-> 0, d |-> 0],
  [n |-> "1", s |-> 0, k |-> 0, d |-> 1],
  [n |-> "-1", s |-> 0, k |-> 0, d |-> -1],
  [n |-> "MinI64", s |-> -1, k |-> 63, d |-> 0],
  [n |-> "MaxI64", s |-> 1, k |-> 63, d |-> -1],
  [n |-> "MaxI64+1", s |-> 1, k |-> 63, d |-> 0],
  [n |-> "2^256-1", s |-> 1, k |-> 256, d |-> -1],
  [n |-> "-(2^256-1)", s |-> -1, k |-> 256, d |-> 1],
  [n |-> "2^256", s |-> 1, k |-> 256, d |-> 0] }
=============================================================================
