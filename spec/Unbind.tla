------------------------------- MODULE Unbind -------------------------------
(* C09 — ONG issuance schedule.                                                          *)
(*                                                                                        *)
(* Functions only (no state): how much ONG is released to an ONT holder and to the        *)
(* governance contract over the offset interval [s, e) (seconds since the genesis block). *)
(* Transcribed from                                                                       *)
(*   smartcontract/service/native/utils/unbind_ong.go : CalcUnbindOng,                    *)
(*                                                      CalcGovernanceUnbindOng           *)
(*   common/config/config.go : GetOntHolderUnboundDeadline, GetGovUnboundDeadline         *)
(* guard by guard.  The two `for ustart < uend` loops are written here as the closed form *)
(*   SUM_i table[i] * |[s,e) /\ [i*T,(i+1)*T)|                                            *)
(* (Unbind_MC.tla also carries the literal loop and TLC checks loop = closed form on the  *)
(* grid; the Go harness closes the remaining gap closed form <-> real loops).             *)
(*                                                                                        *)
(* The module is parametric in everything the code reads from common/constants and in     *)
(* the network (through D): the check instantiates it with the values read from the       *)
(* current tree, so what is proved is proved about the tree's constants.                  *)
(*                                                                                        *)
(* Named deviation GapAtDeadline:                                                         *)
(*   TRUE  = the design, and the code since fix fbb557da (`if startOffset <= deadline`):  *)
(*           the remainder `gap` is what is released during [deadline, deadline+1);       *)
(*   FALSE = the code before that fix (`if startOffset < deadline`): the remainder was    *)
(*           added only when start < deadline < end, so Gov(a, deadline) +                *)
(*           Gov(deadline, c) lost it.  The check probes Gov(deadline, deadline+1) on the *)
(*           real function to see which variant the tree is, proves the matching          *)
(*           obligations, and reports the FALSE variant as a violation of C09.            *)
(* All type annotations are for Apalache; TLC ignores them.                               *)
EXTENDS Integers, Sequences

CONSTANTS
    \* @type: Int;
    T,             \* constants.UNBOUND_TIME_INTERVAL
    \* @type: Seq(Int);
    Rate,          \* constants.UNBOUND_GENERATION_AMOUNT     (18 entries)
    \* @type: Seq(Int);
    NewRate,       \* constants.NEW_UNBOUND_GENERATION_AMOUNT (18 entries)
    \* @type: Int;
    D,             \* config.GetOntHolderUnboundDeadline() of the network
    \* @type: Int;
    OntSupply,     \* constants.ONT_TOTAL_SUPPLY
    \* @type: Int;
    OngSupply,     \* constants.ONG_TOTAL_SUPPLY
    \* @type: Int;
    GovDeadline,   \* first value returned by config.GetGovUnboundDeadline()  (= GovDeadlineAsCoded, see Sane)
    \* @type: Int;
    Gap,           \* second value returned by config.GetGovUnboundDeadline() (= GapAsCoded, see Sane)
    \* @type: Bool;
    GapAtDeadline  \* named deviation, see above

NI == 18           \* len(GENERATION_AMOUNT); the sums below are unrolled for it

\* @type: (Int, Int) => Int;
Max(x, y) == IF x > y THEN x ELSE y

\* seconds of [0, x) that fall into an interval starting at x - y, i.e. y clamped to 0..T
\* @type: Int => Int;
Clamp(y) == IF y <= 0 THEN 0 ELSE IF y >= T THEN T ELSE y

\* released per unit from offset 0 to offset x under table tab:  SUM_i tab[i] * |[0,x) /\ [i*T,(i+1)*T)|
\* @type: (Seq(Int), Int) => Int;
Cum(tab, x) ==
    tab[1] * Clamp(x) + tab[2] * Clamp(x - T) + tab[3] * Clamp(x - 2 * T) + tab[4] * Clamp(x - 3 * T)
  + tab[5] * Clamp(x - 4 * T) + tab[6] * Clamp(x - 5 * T) + tab[7] * Clamp(x - 6 * T) + tab[8] * Clamp(x - 7 * T)
  + tab[9] * Clamp(x - 8 * T) + tab[10] * Clamp(x - 9 * T) + tab[11] * Clamp(x - 10 * T) + tab[12] * Clamp(x - 11 * T)
  + tab[13] * Clamp(x - 12 * T) + tab[14] * Clamp(x - 13 * T) + tab[15] * Clamp(x - 14 * T) + tab[16] * Clamp(x - 15 * T)
  + tab[17] * Clamp(x - 16 * T) + tab[18] * Clamp(x - 17 * T)

\* what the loop  `for ustart < uend {amount += (T-istart)*tab[ustart]; ...}; amount += (iend-istart)*tab[ustart]`
\* accumulates for s <= e < NI*T:  SUM_i tab[i] * |[s,e) /\ [i*T,(i+1)*T)|
\* @type: (Seq(Int), Int, Int) => Int;
Acc(tab, s, e) == Cum(tab, e) - Cum(tab, s)

----------------------------------------------------------------------------
(* config.GetGovUnboundDeadline.  GovDeadline and Gap are parameters (literals in every instance, which keeps   *)
(* the symbolic obligations small); Sane states that they are exactly what this transcription computes, and it *)
(* is itself one of the obligations.                                                                          *)
Index == D \div T
InGap == D - Index * T
\* what interval i contributes to `count`
\* @type: Int => Int;
CountTerm(i) == IF i < Index THEN Rate[i + 1] * T
                ELSE IF i = Index THEN Rate[i + 1] * InGap + NewRate[i + 1] * (T - InGap)
                ELSE NewRate[i + 1] * T
Count == CountTerm(0) + CountTerm(1) + CountTerm(2) + CountTerm(3) + CountTerm(4) + CountTerm(5)
       + CountTerm(6) + CountTerm(7) + CountTerm(8) + CountTerm(9) + CountTerm(10) + CountTerm(11)
       + CountTerm(12) + CountTerm(13) + CountTerm(14) + CountTerm(15) + CountTerm(16) + CountTerm(17)
Excess == Count - OntSupply
\* the code panics ("incompatible constants setting") unless this holds
Compatible == NewRate[NI] = 3 /\ Count - 3 * T < OntSupply /\ OntSupply <= Count
GovDeadlineAsCoded == T * NI - (Excess \div 3) - 1
GapAsCoded == 3 - (Excess % 3)

----------------------------------------------------------------------------
(* CalcUnbindOng(balance, s, e) = HolderAmt(s, e) * balance *)
\* @type: (Int, Int) => Int;
HolderAmt(s, e) ==
    IF s >= e THEN 0
    ELSE IF s < D THEN Acc(Rate, s, IF e >= D THEN D ELSE e)
    ELSE 0
\* @type: (Int, Int, Int) => Int;
Holder(bal, s, e) == HolderAmt(s, e) * bal

(* CalcGovernanceUnbindOng(s, e) = GovAmt(s, e) * ONT_TOTAL_SUPPLY *)
\* @type: (Int, Int) => Int;
GovAmt(s, e) ==
    IF e < D THEN 0
    ELSE LET s1 == IF s < D THEN D ELSE s IN
         IF s1 >= e THEN 0
         ELSE IF s1 < GovDeadline \/ (GapAtDeadline /\ s1 = GovDeadline)
              THEN Acc(NewRate, s1, IF e > GovDeadline THEN GovDeadline ELSE e)
                   + (IF e > GovDeadline THEN Gap ELSE 0)
              ELSE 0
\* @type: (Int, Int) => Int;
Gov(s, e) == GovAmt(s, e) * OntSupply

----------------------------------------------------------------------------
(* The property (C09) and the side conditions that make the transcription exact.          *)
(* All are stated over a, b, c; the Apalache module quantifies them over 0..2^32-1.       *)

\* the table indices the code computes stay inside the arrays, GetGovUnboundDeadline does not panic
Sane == /\ Len(Rate) = NI /\ Len(NewRate) = NI
        /\ T > 0 /\ 0 <= D /\ D < NI * T
        /\ Compatible
        /\ GovDeadline = GovDeadlineAsCoded /\ Gap = GapAsCoded
        /\ D <= GovDeadline /\ GovDeadline < NI * T /\ 1 <= Gap /\ Gap <= 3

\* @type: (Int, Int, Int) => Bool;
HolderAdditive(a, b, c) == (a <= b /\ b <= c) => HolderAmt(a, c) = HolderAmt(a, b) + HolderAmt(b, c)
\* @type: (Int, Int, Int) => Bool;
GovAdditive(a, b, c) == (a <= b /\ b <= c) => GovAmt(a, c) = GovAmt(a, b) + GovAmt(b, c)
\* as coded, the only split that loses anything is the one exactly at the governance deadline,
\* and what it loses is exactly the remainder
\* @type: (Int, Int, Int) => Bool;
GovAdditiveOffDeadline(a, b, c) == (a <= b /\ b <= c /\ b # GovDeadline) => GovAmt(a, c) = GovAmt(a, b) + GovAmt(b, c)
\* @type: (Int, Int, Int) => Bool;
GovLossIsGap(a, b, c) ==
    (a <= b /\ b <= c) =>
        LET loss == GovAmt(a, c) - (GovAmt(a, b) + GovAmt(b, c)) IN
        IF b = GovDeadline /\ Max(a, D) < b /\ b < c THEN loss = Gap ELSE loss = 0
\* everything released from offset 0 to any time after the governance deadline is the ONG supply
\* @type: Int => Bool;
TotalIsSupply(c) == c > GovDeadline => Holder(OntSupply, 0, c) + Gov(0, c) = OngSupply
\* and never more than the supply before
\* @type: Int => Bool;
NeverAboveSupply(c) == Holder(OntSupply, 0, c) + Gov(0, c) <= OngSupply
\* nothing is released after the last interval: an end point beyond NI*T gives what NI*T gives
\* (used to compare the Go functions with the TLC table at offsets >= 2^31, which TLC cannot represent)
\* @type: (Int, Int) => Bool;
Saturation(a, c) == c >= NI * T => (HolderAmt(a, c) = HolderAmt(a, NI * T) /\ GovAmt(a, c) = GovAmt(a, NI * T))
\* the uint64 products of the code do not wrap (so Go's arithmetic is the integer arithmetic above)
\* (maxU64 = 2^64-1 is a parameter because TLC cannot even parse the literal)
\* @type: (Int, Int, Int) => Bool;
NoWrap(a, c, maxU64) == /\ 0 <= HolderAmt(a, c) /\ Holder(OntSupply, a, c) <= maxU64
                        /\ 0 <= GovAmt(a, c) /\ Gov(a, c) <= maxU64
=============================================================================
