---------------------------- MODULE ZeroCopyOps ----------------------------
(***************************************************************************)
(* Pure operators of the primitive binary codec (no state): one operator   *)
(* per Next*/Read*/Write* call of common/zero_copy_source.go,              *)
(* common/zero_copy_sink.go and common/serialization, returning the result *)
(* tuple exactly as coded.  Extended by ZeroCopy (C18 state machine) and   *)
(* used by TxWire (C19), BlockWire (C20) and Num (C21).                    *)
(***************************************************************************)
EXTENDS Naturals, Sequences, FiniteSets, TLC

HUGE == 1073741824   \* stands for every count >= 2^24: larger than any model buffer, includes the uint64-overflow case of SafeAdd

\* ------------------------------------------------------------------ helpers
Slice(b, a, e) == SubSeq(b, a + 1, e)          \* Go's b[a:e]
Zeros(k) == [i \in 1..k |-> 0]
Pad(s, k) == [i \in 1..k |-> IF i <= Len(s) THEN s[i] ELSE 0]
AllZero(s, a, e) == \A i \in a..e : s[i] = 0

Res(val, size, irr, eof, o, err) == [val |-> val, size |-> size, irr |-> irr, eof |-> eof, off |-> o, err |-> err]
NoRes == Res(<<>>, 0, FALSE, FALSE, 0, "")

\* ------------------------------------------------------------------ ZeroCopySource, as coded
\* NextBytes(n): SafeAdd(off, n); on overflow or end > len the rest of the buffer is consumed and eof is set
RdBytes(b, o, n) ==
    LET m == Len(b)
        short == (n >= HUGE) \/ (o + n > m)
        e == IF short THEN m ELSE o + n
    IN Res(Slice(b, o, e), e - o, FALSE, short, e, "")

\* Skip(n): same bounds, no data
RdSkip(b, o, n) == LET r == RdBytes(b, o, n) IN Res(<<>>, 0, FALSE, r.eof, r.off, "")

\* NextByte / NextUint8
RdByte(b, o) == IF o >= Len(b) THEN Res(<<0>>, 0, FALSE, TRUE, o, "")
                ELSE Res(<<b[o + 1]>>, 1, FALSE, FALSE, o + 1, "")

\* NextBool: 0 -> false, 1 -> true, other -> true + irregular; at eof the zero byte gives (false, regular, eof)
RdBool(b, o) == LET r == RdByte(b, o)
                    v == r.val[1]
                IN Res(<<IF v = 0 THEN 0 ELSE 1>>, r.size, v > 1, r.eof, r.off, "")

\* NextUint16/32/64, NextInt16/32/64, NextAddress(20), NextHash(32), NextI128(16): k bytes or (zero value, eof)
RdFixed(b, o, k) == LET r == RdBytes(b, o, k)
                    IN IF r.eof THEN Res(Zeros(k), 0, FALSE, TRUE, r.off, "")
                       ELSE Res(r.val, k, FALSE, FALSE, r.off, "")

\* getVarUintSize on the 8-byte little-endian tuple
MinSize(d) == IF ~AllZero(d, 5, 8) THEN 9
              ELSE IF ~AllZero(d, 3, 4) THEN 5
              ELSE IF d[2] # 0 \/ d[1] >= 253 THEN 3
              ELSE 1

\* NextVarUint
RdVarUint(b, o) ==
    LET f == RdByte(b, o) IN
    IF f.eof THEN Res(Zeros(8), 0, FALSE, TRUE, f.off, "")
    ELSE LET fb == f.val[1]
             k == CASE fb = 253 -> 2 [] fb = 254 -> 4 [] fb = 255 -> 8 [] OTHER -> 0
         IN IF k = 0 THEN Res(Pad(<<fb>>, 8), 1, FALSE, FALSE, f.off, "")
            ELSE LET r == RdFixed(b, f.off, k) IN
                 IF r.eof THEN Res(Zeros(8), 0, FALSE, TRUE, r.off, "")
                 ELSE LET d == Pad(r.val, 8) IN Res(d, k + 1, (k + 1) # MinSize(d), FALSE, r.off, "")

\* a uint64 byte count as a model integer (HUGE when it cannot fit any model buffer)
CountOf(d) == IF ~AllZero(d, 4, 8) THEN HUGE ELSE d[1] + 256 * d[2] + 65536 * d[3]

\* NextVarBytes / NextString: count, then NextBytes(count) only if count > 0 (its eof replaces the varuint's)
RdVarBytes(b, o) ==
    LET u == RdVarUint(b, o)
        c == CountOf(u.val)
        size == IF c >= HUGE THEN HUGE ELSE u.size + c
    IN IF c = 0 THEN Res(<<>>, size, u.irr, u.eof, u.off, "")
       ELSE LET r == RdBytes(b, u.off, c) IN Res(r.val, size, u.irr, r.eof, r.off, "")

\* error-returning wrappers: ReadVarBytes/ReadString/ReadVarUint test irregular before eof; ReadUint32/64 test eof
WrapIE(r, zero) == IF r.irr THEN Res(zero, 0, r.irr, r.eof, r.off, "irregular")
                   ELSE IF r.eof THEN Res(zero, 0, r.irr, r.eof, r.off, "eof")
                   ELSE Res(r.val, 0, FALSE, FALSE, r.off, "ok")
WrapE(r, zero) == IF r.eof THEN Res(zero, 0, FALSE, TRUE, r.off, "eof") ELSE Res(r.val, 0, FALSE, FALSE, r.off, "ok")

FixedOps == [NextUint16 |-> 2, NextUint32 |-> 4, NextUint64 |-> 8, NextInt16 |-> 2, NextInt32 |-> 4, NextInt64 |-> 8,
             NextAddress |-> 20, NextHash |-> 32, NextI128 |-> 16]
NullaryOps == {"NextByte", "NextUint8", "NextBool", "NextVarUint", "NextVarBytes", "NextString",
               "ReadVarBytes", "ReadString", "ReadVarUint", "ReadUint32", "ReadUint64"} \cup DOMAIN FixedOps
CountOps == {"NextBytes", "Skip"}

\* the result of call `name' (argument n for NextBytes/Skip) on reader (b, o)
ReadOp(name, n, b, o) ==
    CASE name \in {"NextByte", "NextUint8"} -> RdByte(b, o)
      [] name = "NextBool" -> RdBool(b, o)
      [] name \in DOMAIN FixedOps -> RdFixed(b, o, FixedOps[name])
      [] name = "NextVarUint" -> RdVarUint(b, o)
      [] name \in {"NextVarBytes", "NextString"} -> RdVarBytes(b, o)
      [] name \in {"ReadVarBytes", "ReadString"} -> WrapIE(RdVarBytes(b, o), <<>>)
      [] name = "ReadVarUint" -> WrapIE(RdVarUint(b, o), Zeros(8))
      [] name = "ReadUint32" -> WrapE(RdFixed(b, o, 4), Zeros(4))
      [] name = "ReadUint64" -> WrapE(RdFixed(b, o, 8), Zeros(8))
      [] name = "NextBytes" -> RdBytes(b, o, n)
      [] name = "Skip" -> RdSkip(b, o, n)

\* ------------------------------------------------------------------ common/serialization (io.Reader based), as coded
\* Same wire format; a read returns (value, error).  Named deviation of the code from the C18 statement:
\* serialization.ReadVarUint / ReadVarBytes / ReadString have no minimal-length check (FALSE = as coded).
LegacyMinimalCheck == FALSE
LegacyOf == [NextByte |-> "ReadByte", NextUint8 |-> "ReadUint8", NextUint16 |-> "ReadUint16", NextUint32 |-> "ReadUint32",
             NextUint64 |-> "ReadUint64", NextBool |-> "ReadBool", NextVarUint |-> "ReadVarUint",
             NextVarBytes |-> "ReadVarBytes", NextString |-> "ReadString", NextBytes |-> "ReadBytes"]
\* ReadBool is binary.Read of a bool: any non-zero byte is true, no irregular indication
LegacyRes(name, n, b, o) ==
    IF name \notin DOMAIN LegacyOf THEN [has |-> FALSE, name |-> "", ok |-> FALSE, val |-> <<>>, nonmin |-> FALSE]
    ELSE LET r == ReadOp(name, n, b, o)
             checked == LegacyMinimalCheck /\ name \in {"NextVarUint", "NextVarBytes", "NextString"}
         IN [has |-> TRUE, name |-> LegacyOf[name], ok |-> ~r.eof /\ (checked => ~r.irr), val |-> r.val,
             nonmin |-> ~r.eof /\ r.irr /\ name \in {"NextVarUint", "NextVarBytes", "NextString"}]

\* ------------------------------------------------------------------ ZeroCopySink, as coded
\* WriteVarUint: the four branches on the value
EncVarUint(d) == LET s == MinSize(d) IN
                 IF s = 1 THEN <<d[1]>>
                 ELSE IF s = 3 THEN <<253>> \o SubSeq(d, 1, 2)
                 ELSE IF s = 5 THEN <<254>> \o SubSeq(d, 1, 4)
                 ELSE <<255>> \o d
LenAs8(n) == <<n % 256, (n \div 256) % 256, (n \div 65536) % 256, 0, 0, 0, 0, 0>>     \* n < 2^24
EncVarBytes(bs) == EncVarUint(LenAs8(Len(bs))) \o bs
EncBool(v) == <<IF v = <<0>> THEN 0 ELSE 1>>

\* item types of the sink: the bytes a Write<t>(v) call appends, and the reader call that reads it back
WriteOf(t, v) == CASE t \in {"Byte", "Uint8", "Uint16", "Uint32", "Uint64", "Int16", "Int32", "Int64",
                             "Address", "Hash", "I128", "Bytes"} -> v
                   [] t = "Bool" -> EncBool(v)
                   [] t = "VarUint" -> EncVarUint(v)
                   [] t \in {"VarBytes", "String"} -> EncVarBytes(v)
\* the size a Write call returns (only WriteVarUint/WriteVarBytes/WriteString return one)
WriteSizeOf(t, v) == IF t \in {"VarUint", "VarBytes", "String"} THEN Len(WriteOf(t, v)) ELSE 0
ReaderOf(t) == IF t = "Bytes" THEN "NextBytes" ELSE "Next" \o t

=============================================================================
