------------------------------ MODULE BlockSync ------------------------------
(***************************************************************************)
(* P2P block synchronisation of ontio/ontology:                            *)
(*   p2pserver/protocols/block_sync/block_sync.go  (type BlockSyncMgr).    *)
(* One action per public entry point / critical section of the manager.    *)
(* The source chain is the canonical chain 1..N; a block/header of height  *)
(* h is identified by h (hash <-> height is 1:1 on the canonical chain);   *)
(* a "bad" block has the canonical header (same hash) and a tampered body, *)
(* so the ledger rejects it (verifyBlockBody / state root mismatch).       *)
(* Peer choice (getNextNode: sort by weight = f(time, speed)) is left      *)
(* nondeterministic: every action that picks a peer takes a preference     *)
(* order `ord` (a permutation of Peers) as parameter.                      *)
(* Time is abstract: CheckTimeout takes the set of flights whose start     *)
(* time is older than the timeout as parameter.                            *)
(***************************************************************************)
EXTENDS Naturals, Sequences, FiniteSets, TLC

CONSTANTS Peers,        \* peer ids (strings)
          N,            \* length of the source chain (heights 1..N)
          PeerH,        \* [Peers -> 0..N] height announced by / available at a peer
          Byz,          \* peers that may send tampered blocks / headers
          Honest,       \* the peer of the liveness property: not in Byz, PeerH[Honest] = N
          Empty,        \* heights whose block has no transaction (TransactionsRoot = 0)
          Perms,        \* set of preference orders (sequences enumerating Peers)
          MaxFlightHdr, \* SYNC_MAX_FLIGHT_HEADER_SIZE  (1)
          MaxFlightBlk, \* SYNC_MAX_FLIGHT_BLOCK_SIZE   (50)
          MaxCache,     \* SYNC_MAX_BLOCK_CACHE_SIZE    (500)
          MaxHdrFwd,    \* SYNC_MAX_HEADER_FORWARD_SIZE (5000)
          NextTimes,    \* SYNC_NEXT_BLOCK_TIMES        (3)
          NextHeights,  \* SYNC_NEXT_BLOCKS_HEIGHT      (2)
          \* ---- named deviations of the code (TRUE = as coded) ----
          AcceptAnyBlock,   \* D1: OnBlockReceive never checks that the block is on flight (from that peer)
          AcceptAnyHdrPeer, \* D2: OnHeaderReceive checks "a flight at that height", not "from that peer"
          TimeoutPickCur,   \* D3: checkTimeout picks the new peer for height curBlock+1, not the flight's height
          \* ---- exploration bound (schedule restriction, not behaviour) ----
          SchedCap,     \* SyncBlock/BlockResp-inline-sync only start while FlightTotal <= SchedCap
          MaxHeld,      \* at most MaxHeld goroutines are paused inside Send (holding a try-lock) at a time
          Acts,         \* names of enabled actions
          RecordAct     \* FALSE: the history variable act stays constant (liveness checking without VIEW)

VARIABLES nodes,    \* keys of nodeWeights (OnAddNode / delNode)
          net,      \* peers for which server.GetPeer(id) # nil
          hdrH,     \* ledger.GetCurrentHeaderHeight()
          blkH,     \* ledger.GetCurrentBlockHeight()
          fh,       \* flightHeaders: height -> peer or None
          fb,       \* flightBlocks : height (= hash) -> sequence of peers ([]*SyncFlightInfo, nodeId)
          cache,    \* blocksCache  : height -> [st: none|good|bad, node]
          lkH, lkB, lkS,  \* syncHeaderLock, syncBlockLock, saveBlockLock
          act       \* history: last action with arguments and outputs (reqs sent, AddBlock calls)

vars == <<nodes, net, hdrH, blkH, fh, fb, cache, lkH, lkB, lkS, act>>
view == <<nodes, net, hdrH, blkH, fh, fb, cache, lkH, lkB, lkS>>

None == "-"
Hs == 1..N
NoE == [st |-> "none", node |-> None]
GoodE == [st |-> "good", node |-> None]       \* the source of a good block is never used again
BadE(p) == [st |-> "bad", node |-> p]
NoFlights == [h \in Hs |-> <<>>]
Range(s) == {s[i] : i \in DOMAIN s}
Min(a, b) == IF a < b THEN a ELSE b
Max(a, b) == IF a > b THEN a ELSE b

RECURSIVE SumLen(_, _)
SumLen(f, h) == IF h = 0 THEN 0 ELSE Len(f[h]) + SumLen(f, h - 1)
FlightTotal(f) == SumLen(f, N)                                   \* getFlightBlockCount
HdrFlights == {h \in Hs : fh[h] # None}                          \* keys of flightHeaders
NonEmptyCached == Cardinality({h \in Hs : cache[h].st # "none" /\ h \notin Empty})

\* getNextNode(h): first peer of the preference order that is in nodeWeights, known to the network and high enough
RECURSIVE PickFrom(_, _, _, _)
PickFrom(ord, i, h, ns) ==
    IF i > Len(ord) THEN None
    ELSE IF ord[i] \in ns /\ ord[i] \in net /\ PeerH[ord[i]] >= h THEN ord[i]
    ELSE PickFrom(ord, i + 1, h, ns)
Pick(ord, h, ns) == PickFrom(ord, 1, h, ns)

Req(t, p, h) == [t |-> t, p |-> p, h |-> h]

Init == /\ nodes = {} /\ net = {}
        /\ hdrH = 0 /\ blkH = 0
        /\ fh = [h \in Hs |-> None]
        /\ fb = NoFlights
        /\ cache = [h \in Hs |-> NoE]
        /\ lkH = FALSE /\ lkB = FALSE /\ lkS = FALSE
        /\ act = [name |-> "Init"]

On(a) == a \in Acts
A(r) == IF RecordAct THEN r ELSE [name |-> "-"]
B2N(b) == IF b THEN 1 ELSE 0
CanHold == B2N(lkH) + B2N(lkB) + B2N(lkS) < MaxHeld
\* the preference order is a parameter only where it makes a difference (avoids duplicate transitions)
Ord0 == CHOOSE o \in Perms : TRUE

(*************************** peers (OnAddNode / OnDelNode) *****************)
\* network registers the peer, then PeerConnected -> OnAddNode
AddNode(p) == /\ On("AddNode") /\ p \notin nodes
              /\ nodes' = nodes \cup {p} /\ net' = net \cup {p}
              /\ act' = A([name |-> "AddNode", p |-> p, reqs |-> <<>>, adds |-> <<>>])
              /\ UNCHANGED <<hdrH, blkH, fh, fb, cache, lkH, lkB, lkS>>

\* the network drops the peer from its table (GetPeer = nil) before PeerDisConnected is delivered
NetDrop(p) == /\ On("NetDrop") /\ p \in net
              /\ net' = net \ {p}
              /\ act' = A([name |-> "NetDrop", p |-> p, reqs |-> <<>>, adds |-> <<>>])
              /\ UNCHANGED <<nodes, hdrH, blkH, fh, fb, cache, lkH, lkB, lkS>>

\* OnDelNode -> delNode: only nodeWeights changes; flights of the peer stay until checkTimeout
\* (configurations without the separate NetDrop step: the disconnect is atomic)
DelNode(p) == /\ On("DelNode") /\ p \in nodes /\ (On("NetDrop") => p \notin net)
              /\ nodes' = nodes \ {p} /\ net' = net \ {p}
              /\ act' = A([name |-> "DelNode", p |-> p, reqs |-> <<>>, adds |-> <<>>])
              /\ UNCHANGED <<hdrH, blkH, fh, fb, cache, lkH, lkB, lkS>>

(******************************** syncHeader *******************************)
\* body of syncHeader after the try-lock, given the header height hh seen by it.
\* result: [fh, reqs]
SyncHeaderBody(ord, hh, fhx) ==
    LET nflight == Cardinality({h \in Hs : fhx[h] # None})
        next == hh + 1
        p == Pick(ord, next, nodes)
    IN IF nflight >= MaxFlightHdr \/ hh - blkH >= MaxHdrFwd \/ next > N \/ p = None
       THEN [fh |-> fhx, reqs |-> <<>>]
       ELSE [fh |-> [fhx EXCEPT ![next] = p], reqs |-> <<Req("hdr", p, next)>>]

\* sync() -> syncHeader(): atomic run, or (hold) paused inside server.Send with the try-lock held
SyncHeader(ord, hold) ==
    /\ On("SyncHeader") /\ ~lkH
    /\ LET r == SyncHeaderBody(ord, hdrH, fh) IN
       /\ (ord # Ord0 => r # SyncHeaderBody(Ord0, hdrH, fh))
       /\ fh' = r.fh
       /\ (hold => r.reqs # <<>> /\ CanHold)
       /\ lkH' = hold
       /\ act' = A([name |-> "SyncHeader", ord |-> ord, hold |-> hold, reqs |-> r.reqs, adds |-> <<>>])
    /\ UNCHANGED <<nodes, net, hdrH, blkH, fb, cache, lkB, lkS>>

\* a concurrent call while the lock is held returns at once
SyncHeaderBusy == /\ On("SyncHeaderBusy") /\ lkH
                  /\ act' = A([name |-> "SyncHeaderBusy", reqs |-> <<>>, adds |-> <<>>])
                  /\ UNCHANGED view
\* the paused goroutine returns from Send: appendReqTime, releaseSyncHeaderLock
SyncHeaderResume == /\ On("SyncHeaderResume") /\ lkH
                    /\ lkH' = FALSE
                    /\ act' = A([name |-> "SyncHeaderResume", reqs |-> <<>>, adds |-> <<>>])
                    /\ UNCHANGED <<nodes, net, hdrH, blkH, fh, fb, cache, lkB, lkS>>

(******************************** syncBlock ********************************)
\* the request loop of syncBlock.  cur: block height read at the start; count: number of heights to
\* request; counter, i, rt: the loop variables `counter`, `i`, `reqTimes`; f: flight table so far;
\* rq: requests sent so far; hh: header height (GetBlockHash(h) is empty above it); ch: cache.
\* result: [fb, reqs, full]   full = loop left through `counter > count` after at least one request
RECURSIVE SBReq(_, _, _, _, _)
\* the inner `for t := 0; t < reqTimes; t++` : returns [fb, reqs, ok]
SBReq(ord, h, t, f, rq) ==
    IF t = 0 THEN [fb |-> f, reqs |-> rq, ok |-> TRUE]
    ELSE LET p == Pick(ord, h, nodes) IN
         IF p = None THEN [fb |-> f, reqs |-> rq, ok |-> FALSE]
         ELSE SBReq(ord, h, t - 1, [f EXCEPT ![h] = Append(@, p)], Append(rq, Req("blk", p, h)))

RECURSIVE SBLoop(_, _, _, _, _, _, _, _, _, _)
SBLoop(ord, cur, count, counter, i, rt, f, rq, hh, ch) ==
    IF counter > count THEN [fb |-> f, reqs |-> rq, full |-> rq # <<>>]
    ELSE LET h == cur + i + 1
             near == h <= cur + NextHeights
         IN IF h > hh THEN [fb |-> f, reqs |-> rq, full |-> FALSE]
            ELSE IF f[h] # <<>> /\ ~near THEN SBLoop(ord, cur, count, counter, i + 1, rt, f, rq, hh, ch)
            ELSE LET rt1 == IF f[h] # <<>> THEN NextTimes ELSE rt IN
                 IF ch[h].st # "none" THEN SBLoop(ord, cur, count, counter, i + 1, rt1, f, rq, hh, ch)
                 ELSE LET rt2 == IF near THEN NextTimes ELSE rt1
                          r == SBReq(ord, h, rt2, f, rq)
                      IN IF ~r.ok THEN [fb |-> r.fb, reqs |-> r.reqs, full |-> FALSE]
                         ELSE SBLoop(ord, cur, count, counter + 1, i + 1, 1, r.fb, r.reqs, hh, ch)

\* body of syncBlock after the try-lock. result [fb, reqs, full]
SyncBlockBody(ord, f, bh, hh, ch) ==
    LET avail == MaxFlightBlk - FlightTotal(f)
        nonEmpty == Cardinality({h \in Hs : ch[h].st # "none" /\ h \notin Empty})
        cap == MaxCache - nonEmpty
        c0 == hh - bh
        count == Min(Min(c0, avail), cap)
    IN IF FlightTotal(f) >= MaxFlightBlk \/ hh <= bh \/ MaxCache <= nonEmpty
       THEN [fb |-> f, reqs |-> <<>>, full |-> FALSE]
       ELSE SBLoop(ord, bh, count, 1, 0, 1, f, <<>>, hh, ch)

SyncBlock(ord, hold) ==
    /\ On("SyncBlock") /\ ~lkB /\ FlightTotal(fb) <= SchedCap
    /\ LET r == SyncBlockBody(ord, fb, blkH, hdrH, cache) IN
       /\ (ord # Ord0 => r # SyncBlockBody(Ord0, fb, blkH, hdrH, cache))
       /\ fb' = r.fb
       /\ (hold => r.full /\ CanHold)   \* paused in the last Send of a loop that is complete: resuming only releases the lock
       /\ lkB' = hold
       /\ act' = A([name |-> "SyncBlock", ord |-> ord, hold |-> hold, reqs |-> r.reqs, adds |-> <<>>])
    /\ UNCHANGED <<nodes, net, hdrH, blkH, fh, cache, lkH, lkS>>

SyncBlockBusy == /\ On("SyncBlockBusy") /\ lkB
                 /\ act' = A([name |-> "SyncBlockBusy", reqs |-> <<>>, adds |-> <<>>])
                 /\ UNCHANGED view
SyncBlockResume == /\ On("SyncBlockResume") /\ lkB
                   /\ lkB' = FALSE
                   /\ act' = A([name |-> "SyncBlockResume", reqs |-> <<>>, adds |-> <<>>])
                   /\ UNCHANGED <<nodes, net, hdrH, blkH, fh, fb, cache, lkH, lkS>>

(***************************** OnHeaderReceive *****************************)
\* peer p delivers headers lo..hi of which the first ng are valid (the others are tampered: AddHeaders adds the
\* valid prefix one by one and fails at the first invalid header).  del: the error counter of p reaches
\* SYNC_MAX_ERROR_RESP_TIMES with this error (the counter itself is not modelled).
HdrAccepted(p, lo) == /\ lo > hdrH /\ fh[lo] # None
                      /\ (AcceptAnyHdrPeer \/ fh[lo] = p)
HeaderResp(p, lo, hi, ng, ord, del) ==
    /\ On("HeaderResp") /\ lo <= hi /\ hi <= N /\ ng <= hi - lo + 1
    /\ (ng < hi - lo + 1 => p \in Byz)
    /\ LET acc == HdrAccepted(p, lo)
           nv == IF lo = hdrH + 1 THEN ng ELSE 0          \* AddHeader: height must be current header height + 1
           err == nv < hi - lo + 1
           hh == hdrH + nv
           \* empty-block shortcut: header h and h-1 both without transactions -> the block is the header
           eb == {h \in lo..hi : h \in Empty /\ (h - 1) \in Empty}
           ebc == {h \in eb : h > blkH}
           sh == IF lkH THEN [fh |-> [fh EXCEPT ![lo] = None], reqs |-> <<>>]
                 ELSE SyncHeaderBody(ord, hh, [fh EXCEPT ![lo] = None])
       IN /\ (del => acc /\ err /\ p \in nodes)
          /\ (~acc => hi = lo /\ ng = 1 /\ lo >= hdrH /\ lo <= hdrH + 1) \* ignored responses: representatives (duplicate, unsolicited)
          /\ (ord # Ord0 => acc /\ ~err /\ ~lkH /\ sh # SyncHeaderBody(Ord0, hh, [fh EXCEPT ![lo] = None]))
          /\ IF ~acc THEN UNCHANGED <<nodes, hdrH, fh, fb, cache>> /\
                          act' = A([name |-> "HeaderResp", p |-> p, lo |-> lo, hi |-> hi, ng |-> ng, ord |-> ord,
                                  del |-> del, acc |-> FALSE, reqs |-> <<>>, adds |-> <<>>])
             ELSE /\ hdrH' = hh
                  /\ IF err
                     THEN /\ fh' = [fh EXCEPT ![lo] = None]
                          /\ nodes' = IF del THEN nodes \ {p} ELSE nodes
                          /\ UNCHANGED <<fb, cache>>
                          /\ act' = A([name |-> "HeaderResp", p |-> p, lo |-> lo, hi |-> hi, ng |-> ng, ord |-> ord,
                                     del |-> del, acc |-> TRUE, reqs |-> <<>>, adds |-> <<>>])
                     ELSE /\ fh' = sh.fh
                          /\ fb' = [h \in Hs |-> IF h \in eb THEN <<>> ELSE fb[h]]
                          /\ cache' = [h \in Hs |-> IF h \in ebc THEN GoodE ELSE cache[h]]
                          /\ UNCHANGED nodes
                          /\ act' = A([name |-> "HeaderResp", p |-> p, lo |-> lo, hi |-> hi, ng |-> ng, ord |-> ord,
                                     del |-> del, acc |-> TRUE, reqs |-> sh.reqs, adds |-> <<>>])
    /\ UNCHANGED <<net, blkH, lkH, lkB, lkS>>

(****************************** OnBlockReceive *****************************)
\* peer p delivers the block of height h (bad: tampered body).  `go saveBlock()` is the separate action SaveBlock.
BlkOnFlightFrom(p, h) == p \in Range(fb[h])
BlockResp(p, h, bad, ord) ==
    /\ On("BlockResp") /\ (bad => p \in Byz)
    /\ LET acc == AcceptAnyBlock \/ BlkOnFlightFrom(p, h)
           f1 == [fb EXCEPT ![h] = <<>>]                       \* delFlightBlock(hash): all infos of the hash
           cached == h <= hdrH + 1 /\ h > blkH
           c1 == IF cached THEN [cache EXCEPT ![h] = IF bad THEN BadE(p) ELSE GoodE] ELSE cache
           sb == IF lkB \/ ~cached \/ FlightTotal(f1) > SchedCap THEN [fb |-> f1, reqs |-> <<>>]
                 ELSE SyncBlockBody(ord, f1, blkH, hdrH, c1)
       IN /\ (cached /\ ~lkB => FlightTotal(f1) <= SchedCap)  \* schedule bound only
          /\ (ord # Ord0 => acc /\ cached /\ ~lkB /\ sb # SyncBlockBody(Ord0, f1, blkH, hdrH, c1))
          /\ (~cached => ~bad /\ (fb[h] # <<>> \/ h = blkH \/ h = hdrH + 2))  \* not cacheable: representatives
          /\ IF ~acc THEN UNCHANGED <<fb, cache>> /\
                          act' = A([name |-> "BlockResp", p |-> p, h |-> h, bad |-> bad, ord |-> ord, acc |-> FALSE,
                                  onflight |-> FALSE, reqs |-> <<>>, adds |-> <<>>])
             ELSE /\ fb' = sb.fb /\ cache' = c1
                  /\ act' = A([name |-> "BlockResp", p |-> p, h |-> h, bad |-> bad, ord |-> ord, acc |-> TRUE,
                             onflight |-> BlkOnFlightFrom(p, h), reqs |-> sb.reqs, adds |-> <<>>])
    /\ UNCHANGED <<nodes, net, hdrH, blkH, fh, lkH, lkB, lkS>>

(********************************* saveBlock *******************************)
\* clearBlocks(cur) then commit cache[cur+1], cache[cur+2], ... until a gap or a rejected block.
\* result [blk, hdr, cache, adds, rej]   rej = height of the rejected block or 0
RECURSIVE SaveLoop(_, _, _, _)
SaveLoop(h, bh, ch, ad) ==
    IF h > N \/ ch[h].st = "none" THEN [blk |-> bh, cache |-> ch, adds |-> ad, rej |-> 0, from |-> None]
    ELSE IF ch[h].st = "bad"
         THEN [blk |-> bh, cache |-> [ch EXCEPT ![h] = NoE], adds |-> Append(ad, [h |-> h, ok |-> FALSE]),
               rej |-> h, from |-> ch[h].node]
         ELSE SaveLoop(h + 1, h, [ch EXCEPT ![h] = NoE], Append(ad, [h |-> h, ok |-> TRUE]))

SaveBlock(ord, del, hold) ==
    /\ On("SaveBlock") /\ ~lkS
    /\ LET c0 == [h \in Hs |-> IF h < blkH THEN NoE ELSE cache[h]]     \* clearBlocks: `height < curBlockHeight`
           r == SaveLoop(blkH + 1, blkH, c0, <<>>)
           ns == IF del THEN nodes \ {r.from} ELSE nodes
           p == IF r.rej = 0 THEN None ELSE Pick(ord, r.rej, ns)
       IN /\ (del => r.rej # 0 /\ r.from \in nodes)
          /\ (ord # Ord0 => r.rej # 0 /\ p # Pick(Ord0, r.rej, ns))
          /\ (hold => p # None /\ CanHold)                      \* paused in the Send of the re-request
          /\ blkH' = r.blk /\ hdrH' = Max(hdrH, r.blk) /\ cache' = r.cache
          /\ nodes' = ns
          /\ fb' = IF p = None THEN fb ELSE [fb EXCEPT ![r.rej] = Append(@, p)]
          /\ lkS' = hold
          /\ act' = A([name |-> "SaveBlock", ord |-> ord, del |-> del, hold |-> hold, adds |-> r.adds,
                     reqs |-> IF p = None THEN <<>> ELSE <<Req("blk", p, r.rej)>>])
    /\ UNCHANGED <<net, fh, lkH, lkB>>

SaveBlockBusy == /\ On("SaveBlockBusy") /\ lkS
                 /\ act' = A([name |-> "SaveBlockBusy", reqs |-> <<>>, adds |-> <<>>])
                 /\ UNCHANGED view
SaveBlockResume == /\ On("SaveBlockResume") /\ lkS
                   /\ lkS' = FALSE
                   /\ act' = A([name |-> "SaveBlockResume", reqs |-> <<>>, adds |-> <<>>])
                   /\ UNCHANGED <<nodes, net, hdrH, blkH, fh, fb, cache, lkH, lkB>>

(******************************** checkTimeout *****************************)
\* TH: header flights older than SYNC_HEADER_REQUEST_TIMEOUT; TBh: heights whose block flights are older than
\* SYNC_BLOCK_REQUEST_TIMEOUT (first: only the oldest info of each such height, else all of them).
\* getNodeWithMinFailedTimes always returns getNextNode(..) of the first call (the failed-times bookkeeping
\* cannot change the choice because getNextNode is a function of the weights only) -> not modelled.
ExpIdx(h, first) == IF first THEN {1} ELSE 1..Len(fb[h])
CheckTimeout(TH, TBh, first, ord) ==
    /\ On("CheckTimeout")
    /\ TH \subseteq HdrFlights /\ TBh \subseteq {h \in Hs : fb[h] # <<>>}
    /\ TH # {} \/ TBh # {}
    /\ TH \in {{}, HdrFlights}                                   \* exploration: all-or-nothing for headers,
    /\ Cardinality(TBh) <= 1 \/ TBh = {h \in Hs : fb[h] # <<>>}   \* one height or all heights for blocks
    /\ (first => \E h \in TBh : Len(fb[h]) > 1)
    /\ LET pk(h) == Pick(ord, IF TimeoutPickCur THEN blkH + 1 ELSE h, nodes)
           hre == {h \in TH : h > hdrH /\ pk(h) # None}
           bre == {h \in TBh : h > blkH /\ pk(h) # None}
           hreqs == {<<Req("hdr", pk(h), hdrH + 1), 1>> : h \in hre}
           breqs == {<<Req("blk", pk(h), h), Cardinality(ExpIdx(h, first))>> : h \in bre}
       IN /\ (ord # Ord0 => \E h \in hre \cup bre : pk(h) # Pick(Ord0, IF TimeoutPickCur THEN blkH + 1 ELSE h, nodes))
          /\ fh' = [h \in Hs |-> IF h \in TH /\ h <= hdrH THEN None
                                 ELSE IF h \in hre THEN pk(h) ELSE fh[h]]
          /\ fb' = [h \in Hs |-> IF h \in TBh /\ h <= blkH THEN <<>>
                                 ELSE IF h \in bre
                                      THEN [i \in 1..Len(fb[h]) |-> IF i \in ExpIdx(h, first) THEN pk(h) ELSE fb[h][i]]
                                      ELSE fb[h]]
          \* requests as a bag {<<request, multiplicity>>}: the code iterates over Go maps
          /\ act' = A([name |-> "CheckTimeout", th |-> TH, tb |-> TBh, first |-> first, ord |-> ord,
                     reqbag |-> hreqs \cup breqs, reqs |-> <<>>, adds |-> <<>>])
    /\ UNCHANGED <<nodes, net, hdrH, blkH, cache, lkH, lkB, lkS>>

(********************************** Next ***********************************)
Next == \/ \E p \in Peers : AddNode(p) \/ NetDrop(p) \/ DelNode(p)
        \/ \E ord \in Perms, hold \in BOOLEAN : SyncHeader(ord, hold) \/ SyncBlock(ord, hold)
        \/ SyncHeaderBusy \/ SyncHeaderResume \/ SyncBlockBusy \/ SyncBlockResume
        \/ SaveBlockBusy \/ SaveBlockResume
        \/ \E p \in Peers, lo \in Hs, hi \in Hs, ng \in 0..N, ord \in Perms, del \in BOOLEAN :
               HeaderResp(p, lo, hi, ng, ord, del)
        \/ \E p \in Peers, h \in Hs, bad \in BOOLEAN, ord \in Perms : BlockResp(p, h, bad, ord)
        \/ \E ord \in Perms, del \in BOOLEAN, hold \in BOOLEAN : SaveBlock(ord, del, hold)
        \/ \E TH \in SUBSET Hs, TBh \in SUBSET Hs, first \in BOOLEAN, ord \in Perms : CheckTimeout(TH, TBh, first, ord)

Spec == Init /\ [][Next]_vars

(******************************** properties *******************************)
TypeOK == /\ nodes \subseteq Peers /\ net \subseteq Peers
          /\ hdrH \in 0..N /\ blkH \in 0..N /\ blkH <= hdrH
          /\ \A h \in Hs : fh[h] \in Peers \cup {None} /\ Range(fb[h]) \subseteq Peers
          /\ \A h \in Hs : cache[h].st \in {"none", "good", "bad"}
          /\ lkH \in BOOLEAN /\ lkB \in BOOLEAN /\ lkS \in BOOLEAN

\* (a) the ledger receives only the next height, in order; a height is committed at most once
RECURSIVE AddsFrom(_, _, _)
AddsFrom(ad, i, cur) == IF i > Len(ad) THEN cur
                        ELSE IF ad[i].h # cur + 1 THEN N + 100      \* poison
                        ELSE AddsFrom(ad, i + 1, IF ad[i].ok THEN cur + 1 ELSE cur)
CommitInOrder == [][blkH' = AddsFrom(act'.adds, 1, blkH)]_vars
CacheAboveCommitted == \A h \in Hs : cache[h].st # "none" => h > blkH
FlightsKnownHash == \A h \in Hs : fb[h] # <<>> => h <= hdrH

\* (b) nothing committed or cached is requested (again); flights bounded
FlightCacheDisjoint == \A h \in Hs : fb[h] # <<>> => cache[h].st = "none"
ReqOK(r) == IF r.t = "blk" THEN r.h > blkH' /\ cache'[r.h].st = "none" ELSE r.h > hdrH'
NoRedundantReq == [][/\ \A i \in DOMAIN act'.reqs : ReqOK(act'.reqs[i])
                     /\ act'.name = "CheckTimeout" => \A e \in act'.reqbag : ReqOK(e[1])]_vars
FlightSlack == NextHeights * (NextTimes - 1) + 1   \* the NextTimes-fold requests are not counted against `count`; saveBlock adds 1 unchecked
FlightBound == /\ FlightTotal(fb) <= MaxFlightBlk + FlightSlack
               /\ Cardinality(HdrFlights) <= MaxFlightHdr

\* (c) a response that is not on flight from that peer changes neither ledger nor cache
UnsolicitedIgnored ==
    [][/\ (act'.name = "BlockResp" /\ ~BlkOnFlightFrom(act'.p, act'.h)) => UNCHANGED <<hdrH, blkH, cache>>
       /\ (act'.name = "HeaderResp" /\ fh[act'.lo] # act'.p) => UNCHANGED <<hdrH, blkH, cache>>]_vars

\* (d) a rejected block leaves the cache and is requested again when a peer can serve it
Rejected(ad) == {ad[i].h : i \in {j \in DOMAIN ad : ~ad[j].ok}}
RejectHandled ==
    [][act'.name = "SaveBlock" =>
         \A h \in Rejected(act'.adds) :
            /\ cache'[h].st = "none" /\ blkH' = h - 1
            /\ Pick(act'.ord, h, nodes') # None =>
                   /\ fb'[h] # <<>> /\ fb'[h][Len(fb'[h])] = Pick(act'.ord, h, nodes')
                   /\ act'.reqs = <<Req("blk", Pick(act'.ord, h, nodes'), h)>>]_vars
\* no wedge: the next block is cached, on flight, or syncBlock would request it (if any peer can serve it)
CanServe(h) == {p \in nodes \cap net : PeerH[p] >= h}
NoWedge == (blkH < hdrH /\ CanServe(blkH + 1) # {}) =>
              \/ cache[blkH + 1].st # "none" \/ fb[blkH + 1] # <<>>
              \/ FlightTotal(fb) < MaxFlightBlk

\* (e) once checkTimeout ran on the flights of a deleted peer they are attributed to a live peer (if one can serve)
TimeoutReattributes ==
    [][act'.name = "CheckTimeout" =>
         LET pk(h) == Pick(act'.ord, IF TimeoutPickCur THEN blkH + 1 ELSE h, nodes) IN
         /\ \A h \in act'.tb : (h > blkH /\ pk(h) # None) =>
                \A i \in ExpIdx(h, act'.first) : fb'[h][i] \in nodes
         /\ \A h \in act'.tb : h <= blkH => fb'[h] = <<>>
         /\ \A h \in act'.th : IF h <= hdrH THEN fh'[h] = None ELSE (pk(h) # None => fh'[h] \in nodes)]_vars


\* (f) liveness.  Fairness is on what the honest peer and the node's own goroutines do; strong fairness because a
\* Byzantine peer / an unlucky preference order can disable these steps again and again (e.g. D1: a tampered block
\* replaces the good cached block of the same height until saveBlock happens to run in between).
HOrd == CHOOSE o \in Perms : o[1] = Honest
HSyncHeader == SyncHeader(HOrd, FALSE)
HSyncBlock == SyncBlock(HOrd, FALSE)
HTimeout == CheckTimeout(HdrFlights, {h \in Hs : fb[h] # <<>>}, FALSE, HOrd)
HHdrResp == \E lo \in Hs : fh[lo] = Honest /\ HeaderResp(Honest, lo, N, N - lo + 1, HOrd, FALSE)
HBlkResp(h) == Honest \in Range(fb[h]) /\ BlockResp(Honest, h, FALSE, HOrd)
AnySave == \E ord \in Perms, del \in BOOLEAN : SaveBlock(ord, del, FALSE)
CommitSave == AnySave /\ blkH' > blkH
Fairness == /\ SF_view(HSyncHeader) /\ SF_view(HSyncBlock) /\ SF_view(HTimeout) /\ SF_view(HHdrResp)
            /\ \A h \in Hs : SF_view(HBlkResp(h))
            /\ SF_view(AnySave) /\ SF_view(CommitSave)
            /\ WF_view(SyncHeaderResume) /\ WF_view(SyncBlockResume) /\ WF_view(SaveBlockResume)
LiveSpec == Spec /\ Fairness
HonestStays == <>[](Honest \in nodes /\ Honest \in net)
Live == HonestStays => <>(blkH = N)

State == [nodes |-> nodes, net |-> net, hdrH |-> hdrH, blkH |-> blkH, fh |-> fh, fb |-> fb, cache |-> cache,
          lkH |-> lkH, lkB |-> lkB, lkS |-> lkS]
=============================================================================
