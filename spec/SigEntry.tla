------------------------------ MODULE SigEntry ------------------------------
(***************************************************************************)
(* The ENTRY POINTS through which a header / block reaches the ledger and  *)
(* their ORDER (property C32, third part besides SigHeader = one header    *)
(* and SigEpoch = which peer set):                                         *)
(*   AddHeader    LedgerStoreImp.AddHeader            (header sync)        *)
(*   AddHeaders   LedgerStoreImp.AddHeaders           (header sync, batch) *)
(*   AddBlock     LedgerStoreImp.AddBlock             (block sync)         *)
(*   SubmitBlock  LedgerStoreImp.ExecuteBlock + SubmitBlock (consensus,    *)
(*                import)                                                   *)
(* in every order for the heights 1..MaxHeight above the ledger's current  *)
(* block (header first then block, block without header, header of H+1     *)
(* cached while block H arrives, a header synced for one fork and the      *)
(* block of the other, ...).                                                *)
(*                                                                         *)
(* An object offered to an entry point has an UNSIGNED part - the fields   *)
(* types.Header.Hash() covers, here [height, id]: two different contents   *)
(* "a", "b" per height; the header <<2, x>> names <<1, x>> as its          *)
(* predecessor - and a SIGNATURE SECTION (Bookkeepers, SigData), which the *)
(* hash does NOT cover.  The two are chosen independently at every step:   *)
(* the same hash may arrive with different sections at different entry     *)
(* points.  Sections are named; SecDef(name) is the [bk, sigs] record in   *)
(* SigBase / SigHeader terms (enough / too few valid signers, non-member,  *)
(* duplicate, ...).                                                        *)
(*                                                                         *)
(* State as in the code: headerIndexCache (height -> hash), headerCache    *)
(* (hash -> header OBJECT, i.e. with the section it was synced with),      *)
(* the block store (the stored header of every block, with ITS section).   *)
(*                                                                         *)
(* The thresholds verifyHeader applies (LedgerSigsVerified,                *)
(* LedgerMinDistinct) are probed from the tree as for SigHeader.           *)
(* Named deviation class SkipVerifyOnCacheHit (set of entry points; {} =   *)
(* the code): the entry point does not call verifyHeader when headerCache  *)
(* holds a header with the hash of the object ("verified during header     *)
(* sync") - unsound, because a hash says nothing about the section.        *)
(***************************************************************************)
EXTENDS SigBase

CONSTANTS N, C,
          LedgerSigsVerified, LedgerMinDistinct,   \* probed, see SigHeader
          MaxHeight,              \* heights 1..MaxHeight above the current block are offered
          Ids,                    \* unsigned contents per height
          Sections,               \* names of the signature sections offered to AddHeader / AddBlock / SubmitBlock
          BatchSections,          \* ... inside an AddHeaders batch (heights 1 and 2 of one fork)
          SecDef(_),              \* name -> [bk |-> .., sigs |-> ..]
          SkipVerifyOnCacheHit    \* named deviation: subset of {"AddBlock", "SubmitBlock"}

VARIABLES hidx,      \* headerIndexCache above the current block at Init: height -> id | "-"
          cache,     \* headerCache: height -> id -> section name | "-"
          blocks,    \* the block store above the origin: sequence of [id, sec] (the STORED header)
          act        \* history variable: the last call and its outcome
vars == <<hidx, cache, blocks, act>>
State == [hidx |-> hidx, cache |-> cache, blocks |-> blocks]

Heights == 1..MaxHeight
Members == 1..N
Nil == "-"

MaxOfNat(S) == IF S = {} THEN 0 ELSE CHOOSE x \in S : \A y \in S : y <= x
CurrBlockHeight == Len(blocks)
\* GetCurrentHeaderHeight: the last index of the header index cache (never below the block height)
HeaderHeight == MaxOfNat({h \in Heights : hidx[h] # Nil} \cup {CurrBlockHeight})

-----------------------------------------------------------------------------
(* verifyHeader, VBFT branch; the governing configuration is the genesis one (SigEpoch varies it) *)
AllMembers(bk) == \A i \in DOMAIN bk : bk[i] \in Members
SectionAccept(s) ==
    /\ Len(s.bk) >= LedgerSigsVerified
    /\ AllMembers(s.bk)                                        \* "invalid pubkey"
    /\ Cardinality(Range(s.bk)) >= LedgerMinDistinct           \* len(usedPubKey) < c+1
    /\ VerifyMulti(s.bk, LedgerSigsVerified, s.sigs, FALSE)
\* GetHeaderByHash(PrevBlockHash): the header cache first, then the block store
ParentKnown(h, id) ==
    \/ h = 1                                                   \* the ledger's current block at Init
    \/ cache[h - 1][id] # Nil
    \/ (CurrBlockHeight >= h - 1 /\ blocks[h - 1].id = id)
VerifyHeader(h, id, sec) == ParentKnown(h, id) /\ SectionAccept(SecDef(sec))

(* the property *)
ValidMemberSigners(s) == {k \in Members : \E i \in DOMAIN s.sigs : ValidFor(s.sigs[i], k)}
SectionOK(s) == Cardinality(ValidMemberSigners(s)) >= C + 1

-----------------------------------------------------------------------------
Init == /\ hidx = [h \in Heights |-> Nil]
        /\ cache = [h \in Heights |-> [i \in Ids |-> Nil]]
        /\ blocks = <<>>
        /\ act = [name |-> "Init"]

\* one AddHeader call on the state (hi, ca): <<accepted, hidx', cache'>>
HeaderStep(hi, ca, hh, h, id, sec, verified) ==
    IF h = hh + 1 /\ verified
    THEN <<TRUE, [hi EXCEPT ![h] = id], [ca EXCEPT ![h][id] = sec]>>
    ELSE <<FALSE, hi, ca>>

AddHeader(h, id, sec) ==
    LET r == HeaderStep(hidx, cache, HeaderHeight, h, id, sec, VerifyHeader(h, id, sec)) IN
    /\ hidx' = r[2] /\ cache' = r[3] /\ UNCHANGED blocks
    /\ act' = [name |-> "AddHeader", hs |-> <<[h |-> h, id |-> id, sec |-> sec]>>, out |-> IF r[1] THEN "ok" ELSE "err"]

\* AddHeaders: the headers sorted by height, AddHeader one after the other, stops at the first error (the earlier
\* ones stay).  Batches <<1, id>>, <<2, id>> of one fork.
AddHeaders(id, s1, s2) ==
    LET r1 == HeaderStep(hidx, cache, HeaderHeight, 1, id, s1, VerifyHeader(1, id, s1))
        \* the second header sees the state the first one left (its predecessor may just have been cached)
        v2 == (r1[3][1][id] # Nil \/ (CurrBlockHeight >= 1 /\ blocks[1].id = id)) /\ SectionAccept(SecDef(s2))
        hh1 == IF r1[1] THEN 1 ELSE HeaderHeight
        r2 == IF r1[1] THEN HeaderStep(r1[2], r1[3], hh1, 2, id, s2, v2) ELSE <<FALSE, r1[2], r1[3]>>
    IN
    /\ MaxHeight >= 2
    /\ hidx' = r2[2] /\ cache' = r2[3] /\ UNCHANGED blocks
    /\ act' = [name |-> "AddHeaders", hs |-> <<[h |-> 1, id |-> id, sec |-> s1], [h |-> 2, id |-> id, sec |-> s2]>>,
               out |-> IF r2[1] THEN "ok" ELSE "err"]

\* AddBlock / ExecuteBlock+SubmitBlock: the height gate, verifyHeader, (body / block root checks: empty blocks, pass),
\* saveBlockToBlockStore (header index := this hash, the block WITH ITS OWN HEADER is stored), delHeaderCache(hash)
BlockEntry(name, h, id, sec) ==
    LET skip == name \in SkipVerifyOnCacheHit /\ cache[h][id] # Nil
        out == IF h <= CurrBlockHeight THEN "noop"                          \* returns nil, nothing happens
               ELSE IF h # CurrBlockHeight + 1 THEN "err"
               ELSE IF skip \/ VerifyHeader(h, id, sec) THEN "ok" ELSE "err"
    IN
    /\ IF out = "ok"
       THEN /\ blocks' = Append(blocks, [id |-> id, sec |-> sec])
            /\ hidx' = [hidx EXCEPT ![h] = id]
            /\ cache' = [cache EXCEPT ![h][id] = Nil]
       ELSE UNCHANGED <<hidx, cache, blocks>>
    /\ act' = [name |-> name, hs |-> <<[h |-> h, id |-> id, sec |-> sec]>>, out |-> out]

AddBlock(h, id, sec) == BlockEntry("AddBlock", h, id, sec)
SubmitBlock(h, id, sec) == BlockEntry("SubmitBlock", h, id, sec)

Next == \/ \E h \in Heights, id \in Ids, sec \in Sections :
               AddHeader(h, id, sec) \/ AddBlock(h, id, sec) \/ SubmitBlock(h, id, sec)
        \/ \E id \in Ids, s1 \in BatchSections, s2 \in BatchSections : AddHeaders(id, s1, s2)
Spec == Init /\ [][Next]_vars

-----------------------------------------------------------------------------
\* C32 on the ledger: every block that became the current block carries, in ITS OWN stored header, valid signatures of
\* more than C distinct consensus peers
StoredSound == \A i \in DOMAIN blocks : SectionOK(SecDef(blocks[i].sec))
\* ... and so does every header accepted by header sync
CacheSound == \A h \in Heights, i \in Ids : cache[h][i] # Nil => SectionOK(SecDef(cache[h][i]))
TypeOK == /\ hidx \in [Heights -> Ids \cup {Nil}]
          /\ cache \in [Heights -> [Ids -> Sections \cup BatchSections \cup {Nil}]]
          /\ CurrBlockHeight <= MaxHeight
=============================================================================
