INIT Init
NEXT Next
CONSTANTS
  NC = 2
  MaxSlots = 2
  MaxDepth = 10
  NotifyMax = 8
  CycleCheckFirstOnly = FALSE
  HeapMode = "all"
  ChainLens = {10, 11, 12}
  WithMutations = TRUE
INVARIANTS DetectorSound AcyclicAccepted CyclicRejected Total RoundTrip DecoderTotal OrderFree
CONSTRAINT RowOut
CHECK_DEADLOCK FALSE
