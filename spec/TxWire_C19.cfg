SPECIFICATION Spec
CONSTANTS
  Cases <- CasesQ
  MaxTxSize = 420
PROPERTIES AllOK
ACTION_CONSTRAINT Row
CHECK_DEADLOCK FALSE
