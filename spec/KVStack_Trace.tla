---------------------------- MODULE KVStack_Trace ----------------------------
(* Trace validation: an NDJSON log recorded from the real CacheDB/OverlayDB stack   *)
(* (harness TestVerifKVTrace) must be a behaviour of KVStack, and the reads and      *)
(* iterations the real code returned after every step must equal the single map.     *)
EXTENDS KVStack, Json
Tr == ndJsonDeserialize("trace.ndjson")
VARIABLE l
tvars == <<vars, l>>

TKeySeq == Tr[1].keyseq
TVals == {Tr[1].vals[i] : i \in 1..Len(Tr[1].vals)}
TContracts == {Tr[1].contracts[i] : i \in 1..Len(Tr[1].contracts)}
TActs == {"CachePut", "CacheDelete", "CacheCommit", "CacheReset", "OvlPut", "OvlDelete", "OvlCommit",
          "Migrate", "Destroy", "Deploy", "DeployRefused", "ContractPut", "MarkDestroyed", "PutRefused"}
TDisk == {Tr[1].disk}
TPrefixes == Tr[1].prefixes

ASSUME TLCSet(1, 0)
Max(a, b) == IF a > b THEN a ELSE b
HW == TLCSet(1, Max(TLCGet(1), l))
Accepted == /\ PrintT(<<"HW", TLCGet(1) - 1>>)
            /\ TLCGet(1) = Len(Tr) + 1

Ev == Tr[l]
ToSet(s) == {s[i] : i \in DOMAIN s}
IsEvent(n) == l <= Len(Tr) /\ Ev.event = n /\ l' = l + 1

\* what the real code returned after the step = the single map of the model's post-state
Pairs(m, p) == LET s == IterOf(m, p) IN [j \in 1..Len(s) |-> <<s[j], m[s[j]]>>]
ObsOK == /\ Ev.readC = flatC' /\ Ev.readO = flatO'
         /\ \A j \in 1..Len(TPrefixes) :
               /\ Ev.iterC[j] = Pairs(flatC', TPrefixes[j])
               /\ Ev.iterO[j] = Pairs(flatO', TPrefixes[j])
         /\ ToSet(Ev.deployed) = deployed' /\ ToSet(Ev.destroyed) = destroyed'
         /\ Ev.res = "ok"

TInit == /\ l = 2 /\ Init
TReset == /\ IsEvent("Reset")
          /\ disk' = Ev.disk /\ ovl' = AllUnk /\ cache' = AllUnk /\ flatO' = Ev.disk /\ flatC' = Ev.disk
          /\ deployed' = {} /\ destroyed' = {} /\ metaO' = <<{}, {}>> /\ nops' = 0 /\ act' = [name |-> "Init"]

TNext == \/ TReset
         \/ IsEvent("CachePut") /\ CachePut(Ev.k, Ev.v) /\ ObsOK
         \/ IsEvent("CacheDelete") /\ CacheDelete(Ev.k) /\ ObsOK
         \/ IsEvent("CacheCommit") /\ CacheCommit /\ ObsOK
         \/ IsEvent("CacheReset") /\ CacheReset /\ ObsOK
         \/ IsEvent("OvlPut") /\ OvlPut(Ev.k, Ev.v) /\ ObsOK
         \/ IsEvent("OvlDelete") /\ OvlDelete(Ev.k) /\ ObsOK
         \/ IsEvent("OvlCommit") /\ OvlCommit /\ ObsOK
         \/ IsEvent("ContractPut") /\ ContractPut(Ev.c, Ev.k, Ev.v) /\ ObsOK
         \/ IsEvent("Migrate") /\ Migrate(Ev.c, Ev.d) /\ ObsOK
         \/ IsEvent("Destroy") /\ Destroy(Ev.c) /\ ObsOK
         \/ IsEvent("Deploy") /\ Deploy(Ev.c) /\ ObsOK
         \/ IsEvent("DeployRefused") /\ DeployRefused(Ev.c) /\ Ev.res = "refused"
                                     /\ Ev.readC = flatC' /\ ToSet(Ev.deployed) = deployed' /\ ToSet(Ev.destroyed) = destroyed'
         \/ IsEvent("MarkDestroyed") /\ MarkDestroyed(Ev.c) /\ ObsOK
         \/ IsEvent("PutRefused") /\ PutRefused(Ev.c, Ev.k) /\ Ev.res = "refused"
                                  /\ Ev.readC = flatC' /\ ToSet(Ev.deployed) = deployed' /\ ToSet(Ev.destroyed) = destroyed'
TSpec == TInit /\ [][TNext]_tvars
=============================================================================
