------------------------------- MODULE P2PWire -------------------------------
(***************************************************************************)
(* The P2P wire format of ontio/ontology (p2pserver/message/types).        *)
(*                                                                         *)
(*   frame   = magic(4) cmd(12, zero padded) length(u32le) checksum(4)     *)
(*             payload(length)                                             *)
(*   ReadMessage (message.go): header complete -> magic -> length <=       *)
(*   MAX_PAYLOAD_LEN -> payload complete -> checksum -> per-type           *)
(*   Deserialization.  One operator per decoder, written branch by branch  *)
(*   from the Go text (order of checks, which end-of-input / irregular     *)
(*   flags are ignored).  Payloads are sequences of bytes 0..255; nested   *)
(*   objects decoded by other packages (block header, block, transaction,  *)
(*   cross-chain message, signed subnet request, offline witness, kad id)  *)
(*   are opaque TOKENS >= 1000 that the harness replaces by real valid     *)
(*   encodings (token + CUT = the same encoding with its tail cut off).    *)
(*                                                                         *)
(*   A decoder returns [r, out]: r = "ok" | "err" | "panic" | "any"        *)
(*   ("any": decided by a nested decoder on non-fixture bytes, not         *)
(*   modelled), out = the payload WriteMessage produces for the decoded    *)
(*   message.                                                              *)
(*                                                                         *)
(* Named deviations (what the code accepts although the payload is not     *)
(* what Serialization writes) are visible as out # consumed input:         *)
(*   clamp      addr / inv lists longer than 64 are cut to 64              *)
(*   lenient    trailing bytes are ignored by every decoder; irregular     *)
(*              booleans / length prefixes are accepted by findnodeack,    *)
(*              a malformed version string is replaced by "", a block      *)
(*              without merkle root / cross-chain flag is accepted         *)
(*   AddrNegCountPanic  addr: a count >= 2^63 skips the loop and then      *)
(*              slices the nil list to 64 entries -> run-time panic        *)
(*   OfflineSigSkipped  offline: Deserialization does not read the         *)
(*              ProposerSig that Serialization writes, so no written       *)
(*              OfflineWitnessMsg is ever accepted                         *)
(*   Both are FIXED in the repository (commits cdc6b150, 7f655a9a): FALSE  *)
(*   in the main configs, TRUE only in the negative controls.              *)
(* DecodePayload / ReadMessage use the constants (TRUE = the old code);    *)
(* DesignPayload / the dres field give the verdict with both switched off. *)
(***************************************************************************)
EXTENDS Integers, Sequences, FiniteSets, TLC

CONSTANTS AddrNegCountPanic,   \* TRUE = code as found
          OfflineSigSkipped,   \* TRUE = code as found
          Level,               \* 0 base frames and counts only, 1 quick, 2 thorough (more replacement bytes)
          ExtraBases           \* function: command name -> set of further payloads (seeded random byte strings)

VARIABLES phase, act
vars == <<phase, act>>
view == <<phase>>

BIG == 1073741824              \* stands for every number >= 2^24 that is not NEG
NEG == -1                      \* a u64 >= 2^63 (negative as Go int)
MAXCLAMP == 64                 \* MAX_ADDR_NODE_CNT = MAX_INV_BLK_CNT
GoodKey == <<3, 107, 23, 209, 242, 225, 44, 66, 71, 248, 188, 230, 229, 99, 164, 64, 242, 119, 3, 125, 129, 45, 235, 51, 160,
             244, 161, 57, 69, 216, 152, 194, 150>>        \* compressed P-256 base point: a valid serialized public key
TOK_HDR == 1001
TOK_BLK == 1002
TOK_TX == 1003
TOK_CCM == 1004
TOK_MEMREQ == 1005     \* a complete, freshly signed SubnetMembersRequest payload
TOK_OFFLINE == 1006    \* a complete OfflineWitnessMsg payload with valid signatures
TOK_KADID == 1007      \* a complete UpdatePeerKeyId payload (key meeting the difficulty)
CUT == 10              \* token + CUT: the same bytes without their tail

Rep(x, k) == [i \in 1..k |-> x]
Seq1(lo, k) == [i \in 1..k |-> (lo + i) % 251]
Take(bs, k) == SubSeq(bs, 1, k)
Drop(bs, k) == SubSeq(bs, k + 1, Len(bs))
Plain(bs, lo, hi) == \A i \in lo..hi : bs[i] < 256      \* positions lo..hi (1-based) hold bytes, not tokens
Min(a, b) == IF a < b THEN a ELSE b

Ok(out) == [r |-> "ok", out |-> out]
Err == [r |-> "err", out |-> <<>>]
Unk == [r |-> "any", out |-> <<>>]
Panic == [r |-> "panic", out |-> <<>>]

(***************************** number readers *******************************)
\* little-endian number in bs[off+1 .. off+k] (off 0-based): exact below 2^24, else BIG
Num(bs, off, k) == IF \E i \in 4..k : bs[off + i] # 0 THEN BIG
                   ELSE bs[off + 1] + 256 * (IF k >= 2 THEN bs[off + 2] ELSE 0) + 65536 * (IF k >= 3 THEN bs[off + 3] ELSE 0)
\* u64 as Go's int(count): NEG when the top bit is set
Num64(bs, off) == IF bs[off + 8] >= 128 THEN NEG ELSE Num(bs, off, 8)
U16(v) == <<v % 256, v \div 256>>
U32(v) == <<v % 256, (v \div 256) % 256, (v \div 65536) % 256, 0>>
U64(v) == U32(v) \o <<0, 0, 0, 0>>

\* ZeroCopySource.NextVarUint at offset off
VarUint(bs, off) ==
    IF off >= Len(bs) THEN [eof |-> TRUE, val |-> 0, size |-> 0, irr |-> FALSE]
    ELSE LET fb == bs[off + 1] IN
         IF fb < 253 THEN [eof |-> FALSE, val |-> fb, size |-> 1, irr |-> FALSE]
         ELSE LET k == IF fb = 253 THEN 2 ELSE IF fb = 254 THEN 4 ELSE 8 IN
              IF off + 1 + k > Len(bs) THEN [eof |-> TRUE, val |-> 0, size |-> 0, irr |-> FALSE]
              ELSE LET v == Num(bs, off + 1, k) IN
                   [eof |-> FALSE, val |-> v, size |-> k + 1,
                    irr |-> IF k = 2 THEN v < 253
                            ELSE IF k = 4 THEN v # BIG /\ v <= 65535
                            ELSE \A i \in 5..8 : bs[off + 1 + i] = 0]
\* ZeroCopySource.NextVarBytes at offset off: data = bs[lo+1 .. hi]
VarBytes(bs, off) ==
    LET u == VarUint(bs, off) IN
    IF u.eof THEN [eof |-> TRUE, irr |-> FALSE, lo |-> off, hi |-> off]
    ELSE IF u.val = 0 THEN [eof |-> FALSE, irr |-> u.irr, lo |-> off + u.size, hi |-> off + u.size]
    ELSE IF off + u.size + u.val > Len(bs) THEN [eof |-> TRUE, irr |-> u.irr, lo |-> off + u.size, hi |-> Len(bs)]
    ELSE [eof |-> FALSE, irr |-> u.irr, lo |-> off + u.size, hi |-> off + u.size + u.val]
\* ZeroCopySink.WriteVarUint / WriteVarBytes
WrVarUint(v) == IF v < 253 THEN <<v>> ELSE IF v <= 65535 THEN <<253>> \o U16(v) ELSE <<254>> \o U32(v)
WrVarBytes(data) == WrVarUint(Len(data)) \o data

(***************************** payload decoders *****************************)
\* messages made of fixed-width fields only: ping, pong (8), getheaders, getblocks (65), getdata (33),
\* notfound (32), findnode (20)
Fixed(bs, k) == IF Len(bs) < k THEN Err ELSE IF ~Plain(bs, 1, k) THEN Unk ELSE Ok(Take(bs, k))

DecVerack(bs) == IF Len(bs) < 1 THEN Err                       \* eof
                 ELSE IF bs[1] \notin {0, 1} THEN Err          \* irregular
                 ELSE Ok(<<bs[1]>>)

\* Version: 75 bytes of fixed fields, IsConsensus bool, SoftVersion string
DecVersion(bs) ==
    IF Len(bs) < 76 THEN Err
    ELSE IF bs[76] \notin {0, 1} THEN Err                      \* "eof || irregular"
    ELSE LET s == VarBytes(bs, 76) IN
         IF s.eof \/ s.irr THEN Ok(Take(bs, 76) \o <<0>>)      \* SoftVersion = "" (lenient)
         ELSE Ok(Take(bs, 76) \o WrVarBytes(SubSeq(bs, s.lo + 1, s.hi)))

\* Addr: u64 count, 44-byte entries
DecAddr(negPanic, bs) ==
    IF Len(bs) < 8 THEN Err
    ELSE LET count == Num64(bs, 0) avail == (Len(bs) - 8) \div 44 IN
         IF count = NEG THEN (IF negPanic THEN Panic ELSE Err)    \* loop skipped, nil[:64]
         ELSE IF count > avail THEN Err                                     \* some field of entry avail+1 hits the end
         ELSE IF count > MAXCLAMP THEN Ok(U64(MAXCLAMP) \o SubSeq(bs, 9, 8 + 44 * MAXCLAMP))    \* clamp
         ELSE Ok(Take(bs, 8 + 44 * count))

\* Inv: type byte, u32 count, 32-byte hashes
DecInv(bs) ==
    IF Len(bs) < 5 THEN Err
    ELSE LET count == Num(bs, 1, 4) avail == (Len(bs) - 5) \div 32 IN
         IF count > avail THEN Err
         ELSE IF count > MAXCLAMP THEN Ok(<<bs[1]>> \o U32(MAXCLAMP) \o SubSeq(bs, 6, 5 + 32 * MAXCLAMP))
         ELSE Ok(Take(bs, 5 + 32 * count))

\* FindNodeResp: id(20) bool string u32 (id(20) string)*   -- irregular flags are ignored
RECURSIVE Closer(_, _, _, _)
Closer(bs, off, cnt, acc) ==
    IF cnt = 0 THEN Ok(acc)
    ELSE IF off + 20 > Len(bs) THEN Err
    ELSE LET s == VarBytes(bs, off + 20) IN
         IF s.eof THEN Err
         ELSE Closer(bs, s.hi, cnt - 1, acc \o SubSeq(bs, off + 1, off + 20) \o WrVarBytes(SubSeq(bs, s.lo + 1, s.hi)))
DecFindNodeResp(bs) ==
    IF Len(bs) < 21 THEN Err
    ELSE LET succ == IF bs[21] = 0 THEN 0 ELSE 1
             s == VarBytes(bs, 21) IN
         IF s.eof THEN Err
         ELSE IF s.hi + 4 > Len(bs) THEN Err
         ELSE LET r == Closer(bs, s.hi + 4, Num(bs, s.hi, 4), <<>>) IN
              IF r.r # "ok" THEN r
              ELSE Ok(Take(bs, 20) \o <<succ>> \o WrVarBytes(SubSeq(bs, s.lo + 1, s.hi)) \o SubSeq(bs, s.hi + 1, s.hi + 4) \o r.out)

\* SubnetMembers: u32 (string string)*  -- ReadString rejects irregular prefixes
RECURSIVE Members(_, _, _)
Members(bs, off, cnt) ==
    IF cnt = 0 THEN Ok(Take(bs, off))
    ELSE LET a == VarBytes(bs, off) IN
         IF a.irr \/ a.eof THEN Err
         ELSE LET b == VarBytes(bs, a.hi) IN
              IF b.irr \/ b.eof THEN Err ELSE Members(bs, b.hi, cnt - 1)
DecMembers(bs) == IF Len(bs) < 4 THEN Err ELSE Members(bs, 4, Num(bs, 0, 4))

\* BlkHeader: u32 count, headers (ct.Header.Deserialization = token)
RECURSIVE Headers(_, _, _)
Headers(bs, off, cnt) ==
    IF cnt = 0 THEN Ok(Take(bs, off))
    ELSE IF off >= Len(bs) THEN Err
    ELSE IF bs[off + 1] = TOK_HDR THEN Headers(bs, off + 1, cnt - 1)
    ELSE IF bs[off + 1] = TOK_HDR + CUT /\ off + 1 = Len(bs) THEN Err
    ELSE Unk
DecHeaders(bs) == IF Len(bs) < 4 THEN Err ELSE IF ~Plain(bs, 1, 4) THEN Unk ELSE Headers(bs, 4, Num(bs, 0, 4))

\* Block: types.Block, merkle root (optional), hasCCM flag (optional), CrossChainMsg
DecBlock(bs) ==
    IF Len(bs) = 0 THEN Err
    ELSE IF bs[1] = TOK_BLK + CUT /\ Len(bs) = 1 THEN Err
    ELSE IF bs[1] # TOK_BLK THEN Unk
    ELSE IF Len(bs) < 33 THEN (IF Plain(bs, 2, Len(bs)) THEN Ok(<<TOK_BLK>> \o Rep(0, 32) \o <<0>>) ELSE Unk)   \* old node's block
    ELSE IF ~Plain(bs, 2, 33) THEN Unk
    ELSE LET root == SubSeq(bs, 2, 33) IN
         IF Len(bs) < 34 THEN Ok(<<TOK_BLK>> \o root \o <<0>>)                 \* eof on the flag
         ELSE IF bs[34] = 0 THEN Ok(<<TOK_BLK>> \o root \o <<0>>)
         ELSE IF bs[34] = 1 THEN (IF Len(bs) >= 35 /\ bs[35] = TOK_CCM THEN Ok(<<TOK_BLK>> \o root \o <<1, TOK_CCM>>)
                                  ELSE IF Len(bs) = 34 \/ (Len(bs) = 35 /\ bs[35] = TOK_CCM + CUT) THEN Err
                                  ELSE Unk)
         ELSE IF bs[34] < 256 THEN Ok(<<TOK_BLK>> \o root \o <<0>>)            \* irregular flag: "old node"
         ELSE Unk

DecTx(bs) == IF Len(bs) = 0 THEN Err ELSE IF bs[1] = TOK_TX THEN Ok(<<TOK_TX>>)
             ELSE IF bs[1] = TOK_TX + CUT /\ Len(bs) = 1 THEN Err ELSE Unk

\* ConsensusPayload: 46 bytes of fixed fields, Data, Owner (public key), Signature
DecConsensus(bs) ==
    IF Len(bs) < 46 THEN Err
    ELSE LET d == VarBytes(bs, 46) IN
         IF d.eof \/ d.irr THEN Err
         ELSE LET o == VarBytes(bs, d.hi) IN
              IF o.eof \/ o.irr THEN Err
              ELSE IF SubSeq(bs, o.lo + 1, o.hi) # GoodKey THEN Unk            \* keypair.DeserializePublicKey
              ELSE LET s == VarBytes(bs, o.hi) IN
                   IF s.irr \/ s.eof THEN Err ELSE Ok(Take(bs, s.hi))

\* SubnetMembersRequest: From(20) To(20) Timestamp(u32); Timestamp # 0: key, signature, freshness, verification
DecMemReq(bs) ==
    IF Len(bs) >= 1 /\ bs[1] = TOK_MEMREQ THEN Ok(<<TOK_MEMREQ>>)
    ELSE IF Len(bs) = 1 /\ bs[1] = TOK_MEMREQ + CUT THEN Err
    ELSE IF Len(bs) >= 1 /\ ~Plain(bs, 1, Len(bs)) THEN Unk
    ELSE IF Len(bs) < 44 THEN Err
    ELSE IF SubSeq(bs, 41, 44) = <<0, 0, 0, 0>> THEN Ok(Take(bs, 44))          \* request from a seed node
    ELSE IF bs[44] >= 96 THEN Unk                                              \* a time stamp that may be fresh
    ELSE Err                                                                   \* eof / bad key / expired (before 2021)
\* OfflineWitnessMsg and UpdatePeerKeyId: only a complete valid payload passes (signatures / key difficulty)
DecWhole(bs, tok) ==
    IF Len(bs) >= 1 /\ bs[1] = tok THEN Ok(<<tok>>)
    ELSE IF Len(bs) >= 1 /\ ~Plain(bs, 1, Len(bs)) THEN (IF bs = <<tok + CUT>> THEN Err ELSE Unk)
    ELSE IF Len(bs) = 0 THEN Err
    ELSE Unk

Cmds == {"ping", "pong", "verack", "version", "addr", "getaddr", "getheaders", "headers", "inv", "getdata", "block", "tx",
         "consensus", "notfound", "getblocks", "findnode", "findnodeack", "updatekadid", "getmembers", "members", "offline",
         "mystery"}
\* makeEmptyMessage + Deserialization
DecodePayloadSw(negPanic, sigSkipped, cmd, bs) ==
    CASE cmd \in {"ping", "pong"} -> Fixed(bs, 8)
      [] cmd \in {"getheaders", "getblocks"} -> Fixed(bs, 65)
      [] cmd = "getdata" -> Fixed(bs, 33)
      [] cmd = "notfound" -> Fixed(bs, 32)
      [] cmd = "findnode" -> Fixed(bs, 20)
      [] cmd = "verack" -> DecVerack(bs)
      [] cmd = "version" -> DecVersion(bs)
      [] cmd = "addr" -> DecAddr(negPanic, bs)
      [] cmd = "getaddr" -> Ok(<<>>)
      [] cmd = "inv" -> DecInv(bs)
      [] cmd = "findnodeack" -> DecFindNodeResp(bs)
      [] cmd = "members" -> DecMembers(bs)
      [] cmd = "headers" -> DecHeaders(bs)
      [] cmd = "block" -> DecBlock(bs)
      [] cmd = "tx" -> DecTx(bs)
      [] cmd = "consensus" -> DecConsensus(bs)
      [] cmd = "getmembers" -> DecMemReq(bs)
      [] cmd = "offline" -> IF sigSkipped /\ Len(bs) >= 1 /\ bs[1] = TOK_OFFLINE THEN Err ELSE DecWhole(bs, TOK_OFFLINE)
      [] cmd = "updatekadid" -> DecWhole(bs, TOK_KADID)
      [] OTHER -> Ok(bs)                                   \* UnknownMessage keeps the payload

DecodePayload(cmd, bs) == DecodePayloadSw(AddrNegCountPanic, OfflineSigSkipped, cmd, bs)
DesignPayload(cmd, bs) == DecodePayloadSw(FALSE, FALSE, cmd, bs)

(********************************* frames ***********************************)
\* frame: [hdr   : number of header bytes on the wire (24 = complete),
\*         magic : "good" | "bad",  cmd,  payload,
\*         lenf  : "exact" | "plus1" | "minus1" | "max" | "maxplus1" | "huge"   (the length field vs. the bytes that follow),
\*         cks   : "good" | "flip"  (checksum of the bytes ReadMessage will read / one bit flipped)]
\* result: r in {"eof", "magic", "toolong", "checksum"} or the decoder's answer; req = payload bytes requested
\* from the reader after the header (never more than MAX_PAYLOAD_LEN)
ReadMessageWith(Dec(_, _), f) ==
    IF f.hdr < 24 THEN [r |-> "eof", out |-> <<>>, req |-> "none"]
    ELSE IF f.magic # "good" THEN [r |-> "magic", out |-> <<>>, req |-> "none"]
    ELSE IF f.lenf \in {"maxplus1", "huge"} THEN [r |-> "toolong", out |-> <<>>, req |-> "none"]
    ELSE IF f.lenf \in {"plus1", "max"} THEN [r |-> "eof", out |-> <<>>, req |-> f.lenf]
    ELSE IF f.cks # "good" THEN [r |-> "checksum", out |-> <<>>, req |-> f.lenf]
    ELSE LET body == IF f.lenf = "minus1" THEN Take(f.payload, Len(f.payload) - 1) ELSE f.payload
             d == Dec(f.cmd, body) IN
         [r |-> d.r, out |-> d.out, req |-> f.lenf]
ReadMessage(f) == ReadMessageWith(DecodePayload, f)
ReadMessageDesign(f) == ReadMessageWith(DesignPayload, f)

Frame(cmd, payload) == [hdr |-> 24, magic |-> "good", cmd |-> cmd, payload |-> payload, lenf |-> "exact", cks |-> "good"]

(***************************** enumerated inputs ****************************)
AddrEntry(i) == Seq1(40 * i, 44)
AddrPayload(cnt, k) == cnt \o [j \in 1..(44 * k) |-> AddrEntry((j - 1) \div 44)[((j - 1) % 44) + 1]]
Hashes(k) == [j \in 1..(32 * k) |-> (7 * ((j - 1) \div 32) + j) % 256]
Str(s) == WrVarBytes(s)
ConsFixed == Seq1(3, 46)

Bases(cmd) ==
    CASE cmd \in {"ping", "pong"} -> {Seq1(1, 8), Rep(255, 8)}
      [] cmd \in {"getheaders", "getblocks"} -> {Seq1(9, 65)}
      [] cmd = "getdata" -> {<<1>> \o Seq1(20, 32)}
      [] cmd = "notfound" -> {Seq1(30, 32)}
      [] cmd = "findnode" -> {Seq1(50, 20)}
      [] cmd = "verack" -> {<<0>>, <<1>>}
      [] cmd = "version" -> {Seq1(2, 75) \o <<1>> \o Str(<<118, 49, 46, 48>>), Seq1(2, 75) \o <<0>> \o Str(<<>>),
                             Seq1(2, 75) \o <<1>>, Seq1(2, 75) \o <<0, 253, 1, 0, 65>>}
      [] cmd = "addr" -> {AddrPayload(U64(k), k) : k \in {0, 1, 2}} \cup {AddrPayload(U64(65), 65)}
                         \cup {AddrPayload(<<0, 0, 0, 0, 0, 0, 0, 128>>, 0), AddrPayload(Rep(255, 8), 1),
                               AddrPayload(<<2, 0, 0, 0, 0, 0, 0, 128>>, 2), AddrPayload(<<0, 0, 0, 0, 1, 0, 0, 0>>, 1)}
      [] cmd = "getaddr" -> {<<>>}
      [] cmd = "inv" -> {<<2>> \o U32(k) \o Hashes(k) : k \in {0, 1, 3}} \cup {<<1>> \o U32(65) \o Hashes(65)}
      [] cmd = "findnodeack" -> {Seq1(60, 20) \o <<1>> \o Str(<<49, 46, 50>>) \o U32(0),
                                 Seq1(60, 20) \o <<0>> \o Str(<<>>) \o U32(2) \o Seq1(70, 20) \o Str(<<97>>) \o Seq1(90, 20) \o Str(<<>>),
                                 Seq1(60, 20) \o <<2>> \o <<253, 1, 0, 97>> \o U32(1) \o Seq1(70, 20) \o <<254, 1, 0, 0, 0, 98>>}
      [] cmd = "members" -> {U32(0), U32(2) \o Str(<<48, 50>>) \o Str(<<49, 58, 50>>) \o Str(<<>>) \o Str(<<120>>),
                             U32(1) \o <<253, 1, 0, 48>> \o Str(<<>>)}
      [] cmd = "headers" -> {U32(0), U32(1) \o <<TOK_HDR>>, U32(2) \o <<TOK_HDR, TOK_HDR>>, U32(1) \o <<TOK_HDR + CUT>>,
                             U32(3) \o <<TOK_HDR, TOK_HDR>>, Rep(255, 4) \o <<TOK_HDR>>}
      [] cmd = "block" -> {<<TOK_BLK>> \o Seq1(5, 32) \o <<0>>, <<TOK_BLK>> \o Seq1(5, 32) \o <<1, TOK_CCM>>, <<TOK_BLK>>,
                           <<TOK_BLK>> \o Seq1(5, 32), <<TOK_BLK>> \o Seq1(5, 32) \o <<7>>, <<TOK_BLK>> \o Seq1(5, 32) \o <<1>>,
                           <<TOK_BLK + CUT>>, <<TOK_BLK>> \o Seq1(5, 32) \o <<1, TOK_CCM + CUT>>, <<TOK_BLK>> \o Seq1(5, 10)}
      [] cmd = "tx" -> {<<TOK_TX>>, <<TOK_TX + CUT>>, <<TOK_TX, 0>>}
      [] cmd = "consensus" -> {ConsFixed \o Str(<<1, 2, 3>>) \o Str(GoodKey) \o Str(Seq1(9, 64)),
                               ConsFixed \o Str(<<>>) \o Str(GoodKey) \o Str(<<>>)}
      [] cmd = "getmembers" -> {<<TOK_MEMREQ>>, <<TOK_MEMREQ + CUT>>, Seq1(1, 40) \o <<0, 0, 0, 0>>,
                                Seq1(1, 40) \o <<1, 0, 0, 0>> \o Str(GoodKey) \o Str(Seq1(9, 64))}
      [] cmd = "offline" -> {<<TOK_OFFLINE>>, <<TOK_OFFLINE + CUT>>}
      [] cmd = "updatekadid" -> {<<TOK_KADID>>, <<TOK_KADID + CUT>>}
      [] OTHER -> {<<>>, Seq1(1, 5)}

ReplBytes == IF Level >= 2 THEN {0, 1, 2, 64, 127, 128, 252, 253, 254, 255} ELSE {0, 2, 253, 255}
SetAt(bs, i, x) == [bs EXCEPT ![i] = x]
Win(bs, i, w) == [j \in 1..Len(bs) |-> IF j >= i /\ j < i + w /\ bs[j] < 256 THEN 255 ELSE bs[j]]
\* positions whose byte is replaced: everything for short payloads, the first 60 and the last 24 otherwise
Wide == IF Level >= 2 THEN 120 ELSE 90
Positions(bs) == {i \in 1..Len(bs) : bs[i] < 256 /\ (Len(bs) <= Wide \/ i <= Wide \div 2 \/ i > Len(bs) - 24)}
Cuts(bs) == {i \in 0..(Len(bs) - 1) : Len(bs) <= Wide \/ i <= Wide \div 2 \/ i > Len(bs) - 24 \/ i % 44 = 8 \/ i % 32 = 5}

\* wrap-around classes for counts / lengths: 2^k (k = 24..31), 2^k + j for small j, 0x7FFFFFFF, 0xFFFFFFFF as
\* little-endian 32-bit fields, 2^59..2^63 (+ j), 2^63 - 1 and the 32-bit values as 64-bit fields: values whose
\* product with an element size wraps to something small in 32- or 64-bit arithmetic
Pow8 == {1, 2, 4, 8, 16, 32, 64, 128}
Wrap32 == {<<j, 0, 0, x>> : j \in 0..3, x \in Pow8} \cup {<<255, 255, 255, 127>>, <<255, 255, 255, 255>>}
Wrap64 == {<<j, 0, 0, 0, 0, 0, 0, x>> : j \in 0..3, x \in {8, 16, 32, 64, 128}} \cup {Rep(255, 7) \o <<127>>}
          \cup {w \o <<0, 0, 0, 0>> : w \in Wrap32}
SetField(bs, i, w) == [j \in 1..Len(bs) |-> IF j >= i /\ j < i + Len(w) THEN w[j - i + 1] ELSE bs[j]]
\* a one-byte length prefix at position i replaced by the 5- or 9-byte form carrying w
SetPrefix(bs, i, w) == SubSeq(bs, 1, i - 1) \o <<IF Len(w) = 4 THEN 254 ELSE 255>> \o w \o SubSeq(bs, i + 1, Len(bs))
\* fixed-width count fields <<position, width>> and positions of length prefixes of a base payload
CountFields(cmd, b) ==
    CASE cmd = "addr" -> {<<1, 8>>}
      [] cmd = "inv" -> {<<2, 4>>}
      [] cmd \in {"headers", "members"} -> {<<1, 4>>}
      [] cmd = "findnodeack" -> IF Len(b) >= 22 /\ ~VarBytes(b, 21).eof /\ VarBytes(b, 21).hi + 4 <= Len(b)
                                THEN {<<VarBytes(b, 21).hi + 1, 4>>} ELSE {}
      [] OTHER -> {}
PrefixFields(cmd, b) ==
    {i \in CASE cmd = "version" -> {77}
             [] cmd = "findnodeack" -> {22} \cup (IF Len(b) >= 22 /\ ~VarBytes(b, 21).eof THEN {VarBytes(b, 21).hi + 4 + 20 + 1} ELSE {})
             [] cmd = "members" -> {5} \cup (IF Len(b) >= 5 /\ ~VarBytes(b, 4).eof THEN {VarBytes(b, 4).hi + 1} ELSE {})
             [] cmd = "consensus" -> {47} \cup (IF Len(b) >= 47 /\ ~VarBytes(b, 46).eof
                                               THEN {VarBytes(b, 46).hi + 1} \cup
                                                    (IF ~VarBytes(b, VarBytes(b, 46).hi).eof THEN {VarBytes(b, VarBytes(b, 46).hi).hi + 1} ELSE {})
                                               ELSE {})
             [] cmd = "getmembers" -> {45}
             [] OTHER -> {} : i <= Len(b) /\ b[i] < 253}

Do(kind, f) == /\ phase' = phase
               /\ LET res == ReadMessage(f) IN
                  act' = [name |-> "Read", kind |-> kind, frame |-> f, res |-> res.r, out |-> res.out, req |-> res.req,
                          dres |-> IF f.cmd \in {"addr", "offline"} THEN ReadMessageDesign(f).r ELSE res.r]

\* C24, sequences: ReadMessage is a function of the frame -- a message that was returned is a value of its own,
\* it does not change when further frames are read (from the same or another connection).  ReadPair reads
\* frame f1, then f2, and only then re-serializes both: the outputs are those of the single reads.
Filler == Rep(238, 400)                        \* an unknown-command frame long enough to overwrite any small read buffer
Disturbers(cmd) == {<<"mystery", Filler>>, <<"ping", Seq1(1, 8)>>}
                   \cup {<<"consensus", b2>> : b2 \in Bases("consensus")} \cup {<<"tx", <<TOK_TX>>>>, <<"getmembers", <<TOK_MEMREQ>>>>}
                   \cup {<<cmd, b2>> : b2 \in Bases(cmd)}
DoPair(f1, f2) == /\ phase' = phase
                  /\ LET r1 == ReadMessage(f1) r2 == ReadMessage(f2) IN
                     act' = [name |-> "ReadPair", kind |-> "pair", frame |-> f1, res |-> r1.r, out |-> r1.out, req |-> r1.req,
                             dres |-> r1.r, frame2 |-> f2, res2 |-> r2.r, out2 |-> r2.out]

Init == phase = "run" /\ act = [name |-> "Init"]
Next == \/ \E cmd \in Cmds : \E b \in Bases(cmd) :
           \/ Do("base", Frame(cmd, b))
           \/ Level >= 1 /\ \E i \in Cuts(b) : Do("trunc", Frame(cmd, Take(b, i)))
           \/ Level >= 1 /\ \E i \in Positions(b) : \E x \in ReplBytes \cup {(b[i] + 1) % 256} : x # b[i] /\ Do("byte", Frame(cmd, SetAt(b, i, x)))
           \/ \E i \in Positions(b) : i + 3 <= Len(b) /\ Do("count", Frame(cmd, Win(b, i, 4)))
           \/ \E i \in Positions(b) : i + 7 <= Len(b) /\ (i = 1 \/ Level >= 2) /\ Do("count", Frame(cmd, Win(b, i, 8)))
           \/ \E fw \in CountFields(cmd, b) : \E w \in (IF fw[2] = 4 THEN Wrap32 ELSE Wrap64) : Do("wrap", Frame(cmd, SetField(b, fw[1], w)))
           \/ \E i \in PrefixFields(cmd, b) : \E w \in Wrap32 \cup {v \in Wrap64 : v[8] # 0} : Do("wrap", Frame(cmd, SetPrefix(b, i, w)))
           \/ Level >= 2 /\ \E i \in Positions(b) : i + 3 <= Len(b) /\ Plain(b, i, i + 3)
                    /\ \E w \in {<<0, 0, 0, 8>>, <<0, 0, 0, 128>>, <<1, 0, 0, 8>>, <<2, 0, 0, 1>>} : Do("wrapany", Frame(cmd, SetField(b, i, w)))
           \/ Level >= 2 /\ \E i \in Positions(b) : i + 7 <= Len(b) /\ Plain(b, i, i + 7)
                    /\ \E w \in {<<0, 0, 0, 0, 0, 0, 0, 8>>, <<1, 0, 0, 0, 0, 0, 0, 128>>, <<0, 0, 0, 8, 0, 0, 0, 0>>} : Do("wrapany", Frame(cmd, SetField(b, i, w)))
           \/ \E x \in {0, 255} : Do("trail", Frame(cmd, b \o <<x>>))
           \/ Do("magic", [Frame(cmd, b) EXCEPT !.magic = "bad"])
           \/ \E l \in {"plus1", "minus1", "max", "maxplus1", "huge"} : (l = "minus1" => Len(b) > 0) /\ Do("length", [Frame(cmd, b) EXCEPT !.lenf = l])
           \/ Do("checksum", [Frame(cmd, b) EXCEPT !.cks = "flip"])
           \/ \E h \in {0, 3, 23} : Do("header", [Frame(cmd, b) EXCEPT !.hdr = h])
           \/ Do("magic", [Frame(cmd, b) EXCEPT !.magic = "bad", !.lenf = "huge", !.cks = "flip"])
        \/ \E cmd \in Cmds : \E b \in Bases(cmd) : \E d \in Disturbers(cmd) :
              Len(b) <= 400 /\ DoPair(Frame(cmd, b), Frame(d[1], d[2]))
        \/ \E cmd \in Cmds : \E b \in ExtraBases[cmd] : Do("random", Frame(cmd, b)) \/ Do("randomtrail", Frame(cmd, b \o <<0>>))
Spec == Init /\ [][Next]_vars

(******************************* properties *********************************)
\* C24: wrong magic, oversized length and bad checksum are rejected, and nothing beyond the header is
\* requested from the network for the first two
HeaderChecksOK == [][act'.name = "Read" =>
                       /\ (act'.frame.hdr = 24 /\ act'.frame.magic = "bad" => act'.res = "magic" /\ act'.req = "none")
                       /\ (act'.frame.hdr = 24 /\ act'.frame.magic = "good" /\ act'.frame.lenf \in {"maxplus1", "huge"}
                              => act'.res = "toolong" /\ act'.req = "none")
                       /\ (act'.frame.hdr = 24 /\ act'.frame.magic = "good" /\ act'.frame.lenf \in {"exact", "minus1"} /\ act'.frame.cks = "flip"
                              => act'.res = "checksum")
                       /\ (act'.res \in {"ok", "panic", "any"} => act'.frame.magic = "good" /\ act'.frame.cks = "good"
                                                                   /\ act'.frame.lenf \in {"exact", "minus1"})]_vars
\* C24: decoding never panics (fails for the code as found: AddrNegCountPanic)
NoPanic == [][act'.name = "Read" => act'.res # "panic"]_vars
\* C24: every message type has a written form that is accepted and reproduced (fails for the code as
\* found: OfflineSigSkipped)
EveryTypeRoundTrips == \A cmd \in Cmds : \E b \in Bases(cmd) : DecodePayload(cmd, b) = Ok(b)
\* the deviations only turn an error into a panic / an accepted frame into an error
DeviationOK == [][act'.name = "Read" /\ act'.res # act'.dres =>
                     \/ act'.res = "panic" /\ act'.dres = "err" /\ act'.frame.cmd = "addr"
                     \/ act'.res = "err" /\ act'.dres = "ok" /\ act'.frame.cmd = "offline"]_vars
\* C24 round trip: a frame written by WriteMessage (a base payload that is its own re-serialization)
\* is accepted and reproduced
Canonical(cmd, b) == DecodePayload(cmd, b).r = "ok" /\ DecodePayload(cmd, b).out = b
RoundTripOK == [][act'.name = "Read" /\ act'.kind = "base" /\ act'.res = "ok" /\ act'.out = act'.frame.payload =>
                     Canonical(act'.frame.cmd, act'.out)]_vars
\* re-serialization is idempotent: what Write produces for an accepted frame is accepted and reproduced
IdempotentOK == [][act'.name = "Read" /\ act'.res = "ok" => Canonical(act'.frame.cmd, act'.out)]_vars
\* an accepted payload is reproduced exactly unless one of the named leniencies applies: the output is
\* never longer than the input except for the defaults a lenient decoder fills in (version string, block tail)
ReproOK == [][act'.name = "Read" /\ act'.res = "ok" /\ act'.frame.lenf = "exact" =>
                 LET inp == act'.frame.payload out == act'.out IN
                 \/ (Len(out) <= Len(inp) /\ out = Take(inp, Len(out)))                                        \* exact, or trailing bytes ignored
                 \/ act'.frame.cmd \in {"addr", "inv"} /\ Len(out) < Len(inp)         \* clamp
                 \/ act'.frame.cmd \in {"version", "block", "findnodeack", "getaddr"}  \* lenient decoders
             ]_vars
\* C24 allocation: a count / length beyond what the payload can hold is rejected by every decoder (the
\* harness checks that the real decoder does so without allocating for the announced number)
WrapRejected == [][act'.name = "Read" /\ act'.kind = "wrap" /\ act'.frame.cmd \in {"addr", "inv", "headers", "members"}
                      => act'.res \in {"err", "panic"}]_vars
\* the message returned for a frame is independent of what is read afterwards (and before)
IndependentOK == [][act'.name = "ReadPair" =>
                       /\ act'.res = ReadMessage(act'.frame).r /\ act'.out = ReadMessage(act'.frame).out
                       /\ act'.res2 = ReadMessage(act'.frame2).r /\ act'.out2 = ReadMessage(act'.frame2).out]_vars
State == [phase |-> phase]
=============================================================================
