SPECIFICATION Spec
CONSTANTS
  Kinds <- KindsPath
  NeedsWitness <- Needs
  FeeKinds <- Fees
  ParamKind = "setparam"
  MaxParam = 1
  MaxRestart = 1
  StaleGasTable = FALSE
  Variants <- ChainVariants
  SameAddr <- ProbedSameAddr
  MaxTx = 2
  MaxBlocks = 2
  EnvKinds <- KindsEnv
  Paths <- PathsAll
  EnvFromIndex = TRUE
  LazyFromRaw = FALSE
VIEW view
INVARIANT Agreement
CHECK_DEADLOCK FALSE
