SPECIFICATION Spec
CONSTANTS
  KeySeq <- KeySeq3
  Vals <- Vals3
  Acts <- ActsC03
  MaxOps = 5
  DiskInits <- DiskAll3
  Contracts <- NoContracts
  Track = TRUE
VIEW view
INVARIANTS TypeOK Refines IterOK
CONSTRAINT InitOut
ACTION_CONSTRAINT Edge
CHECK_DEADLOCK FALSE
