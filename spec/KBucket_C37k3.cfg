SPECIFICATION Spec
CONSTANTS
  IdBits <- Ids6
  LocalBits <- Local6
  K = 3
  Peers <- Peers8k3
  Addrs <- Addrs2
  Targets <- Targets10
  Counts <- Counts4
  MaxOps = 4
VIEW view
INVARIANTS Valid NearestOK AddrOK SizeOK
PROPERTIES RemoveGone
CONSTRAINT InitOut
ACTION_CONSTRAINT Edge
CHECK_DEADLOCK FALSE
