------------------------------ MODULE SigTx_MC ------------------------------
EXTENDS SigTx, Json

SeqsBetween(S, a, b) == UNION {[1..k -> S] : k \in a..b}
K3 == 1..3
NoKeys == {}
Eth3 == {3}
MutAll == {"content", "sig", "payer"}
PreAll == {"query", "reverify"}
PreNone == {}
MutNone == {}

CK(k) == [v |-> k, enc |-> "c", push |-> "direct"]
Single(k, sigs) == [form |-> "single", keys |-> <<CK(k)>>, m |-> 1, menc |-> "op", n |-> 1, nenc |-> "op", sigs |-> sigs]
\* multi-signature script with canonical token encodings but keys in the given order, any m
Multi(ks, m, sigs) == [form |-> "multi", keys |-> [i \in DOMAIN ks |-> CK(ks[i])], m |-> m, menc |-> "op",
                       n |-> Len(ks), nenc |-> IF Len(ks) <= 16 THEN "op" ELSE "b1", sigs |-> sigs]
PSet(i) == [kind |-> "set", i |-> i]
PKey(k) == [kind |-> "key", i |-> k]
PNone == [kind |-> "none", i |-> 0]
Tx1(p, s) == [payer |-> p, sets |-> <<s>>]

-----------------------------------------------------------------------------
(* C16 input space *)
SigAlphaQ == {Good(k) : k \in K3} \cup {Garbage}
SigAlphaT == SigAlphaQ \cup {Stale(1), Stale(2)}
KeyLists == SeqsBetween(K3, 2, 3)
Payers1 == {PSet(1), PKey(1), PNone}

\* the one-set space is enumerated by nested quantifiers (TLC needs minutes to normalise it as one set of records)
SigSeqs2Q == SeqsBetween(SigAlphaQ, 0, 2)
SigSeqs3Q == SeqsBetween(SigAlphaQ, 0, 3)
SigSeqs2T == SeqsBetween(SigAlphaT, 0, 2)
SigSeqs3T == SeqsBetween(SigAlphaT, 0, 3)
SubmitOneSet(seqs2, seqs3, lists, payers) ==
    \/ \E p \in Payers1, k \in K3, sg \in seqs2 : Submit(Tx1(p, Single(k, sg)))
    \/ \E p \in payers, ks \in lists, m \in 0..4, sg \in seqs3 : Submit(Tx1(p, Multi(ks, m, sg)))
\* quick tier: all 2-key lists, six 3-key lists (sorted, rotated, duplicates at either end, one key three times)
KeyListsQ == SeqsBetween(K3, 2, 2) \cup {<<1, 2, 3>>, <<3, 1, 2>>, <<1, 1, 2>>, <<2, 1, 1>>, <<1, 1, 1>>, <<2, 3, 2>>}
Payers2 == {PSet(1), PNone}

\* two sets from a small family: one bad set spoils the transaction, the payer may be either account
Fam == { Single(1, <<Good(1)>>), Single(2, <<Good(2)>>), Single(1, <<Garbage>>), Single(1, <<Good(2)>>),
         Multi(<<1, 2>>, 2, <<Good(1), Good(2)>>), Multi(<<1, 2>>, 2, <<Good(1), Good(1)>>),
         Multi(<<1, 1>>, 2, <<Good(1), Good(1)>>), Multi(<<2, 1>>, 1, <<Good(2)>>),
         Multi(<<1, 2, 3>>, 2, <<Good(3), Good(1)>>) }
TwoSets == {[payer |-> p, sets |-> <<a, b>>] : p \in {PSet(1), PSet(2), PNone}, a \in Fam, b \in Fam}

\* boundaries: 0, 16 and 17 signature sets; 16 and 17 keys in one script
Rep(x, n) == [i \in 1..n |-> x]
CycleKeys(n) == [i \in 1..n |-> ((i - 1) % 3) + 1]
Boundary ==
    { [payer |-> PKey(1), sets |-> <<>>] }
    \cup {[payer |-> PSet(1), sets |-> Rep(Single(1, <<Good(1)>>), n)] : n \in {16, 17}}
    \cup {[payer |-> PSet(n), sets |-> Rep(Single(2, <<Good(2)>>), n - 1) \o <<Single(1, <<Good(1)>>)>>] : n \in {16, 17}}
    \cup {Tx1(PSet(1), Multi(CycleKeys(n), m, Rep(Good(1), m))) : n \in {16, 17}, m \in {1, 2}}
    \cup {Tx1(PSet(1), Multi(CycleKeys(n), 3, <<Good(1), Good(2), Good(3)>>)) : n \in {16, 17}}

\* MALFORMED SIGNATURE BLOBS (SigBase!Malformed): every shape, shaped for every key's type/scheme, offered to every key
\*   single-key sets: the blob alone, and the blob followed by a good signature (only SigData[0] is examined)
\*   multi-signature sets: the honest signature list of length m or m+1 (in key order) with ONE position replaced by
\*   a blob - inside the first m (must spoil the set) or in the surplus position (never examined)
MalAlpha == {Malformed(sh, k) : sh \in MalShapes, k \in K3}
HonestSigs(ks, len) == [i \in 1..len |-> Good(ks[i])]
MalSingle == {Single(k, <<b>>) : k \in K3, b \in MalAlpha} \cup {Single(k, <<b, Good(k)>>) : k \in K3, b \in MalAlpha}
MalMultiOK(ks, m, len, pos) == m <= Len(ks) /\ len \in {m, m + 1} /\ len <= Len(ks) /\ pos <= len
MalMultiSets == {Multi(ks, m, [HonestSigs(ks, len) EXCEPT ![pos] = b]) :
                    <<ks, m, len, pos>> \in {q \in {<<1, 2>>, <<1, 2, 3>>} \X (1..3) \X (1..3) \X (1..3) :
                                                 MalMultiOK(q[1], q[2], q[3], q[4])},
                    b \in MalAlpha}
MalTxs == {Tx1(PSet(1), s) : s \in MalSingle \cup MalMultiSets}

Small16 == TwoSets \cup Boundary \cup MalTxs
NextC16q == (phase = "idle" /\ (SubmitOneSet(SigSeqs2Q, SigSeqs3Q, KeyListsQ, Payers2) \/ \E t \in Small16 : Submit(t))) \/ Other
NextC16t == (phase = "idle" /\ (SubmitOneSet(SigSeqs2T, SigSeqs3T, KeyLists, Payers1) \/ \E t \in Small16 : Submit(t))) \/ Other
SpecC16q == Init /\ [][NextC16q]_vars
SpecC16t == Init /\ [][NextC16t]_vars

-----------------------------------------------------------------------------
(* C17 input space: every way the parser admits to write down the same keys; honest signatures *)
\* encodings DeserializePublicKey maps to the same key, per key type of the binding:
\* key 1 = P-256 (compressed "c", uncompressed "u", typed "t", trailing bytes "x"), key 2 = another EC key,
\* key 3 = a key with a single accepted encoding (Ed25519 / Ethereum-type)
EncOf(k) == IF k = 1 THEN {"c", "u", "t", "x"} ELSE IF k = 2 THEN {"c", "u", "x"} ELSE {"c"}
Pushes == {"direct", "d1", "d2", "d4"}
KD(k) == {[v |-> k, enc |-> e, push |-> p] : e \in EncOf(k), p \in Pushes}
SingleV == {[form |-> "single", keys |-> <<kd>>, m |-> 1, menc |-> "op", n |-> 1, nenc |-> "op", sigs |-> <<Good(kd.v)>>]
            : kd \in UNION {KD(k) : k \in K3}}
FirstSigs(ks, m) == [i \in 1..m |-> Good(ks[i])]
\* key lists of 2..3 keys in any order (duplicates included), every valid m, canonical pushes, all n encodings
MultiOrderN(len) == {[form |-> "multi", keys |-> [i \in DOMAIN ks |-> CK(ks[i])], m |-> m, menc |-> "op",
                      n |-> Len(ks), nenc |-> ne, sigs |-> FirstSigs(ks, m)]
                     : ks \in SeqsBetween(K3, len, len), m \in 1..len, ne \in {"op", "b1", "b2", "d1"}}
MultiOrder == MultiOrderN(2) \cup MultiOrderN(3)
\* two keys, both orders, every encoding / push of each key (enumerated by nested quantifiers, see SubmitOneSet)
KDall == UNION {KD(k) : k \in K3}
MultiEncSet(a, b, m) == [form |-> "multi", keys |-> <<a, b>>, m |-> m, menc |-> "op", n |-> 2, nenc |-> "op",
                         sigs |-> FirstSigs(<<a.v, b.v>>, m)]
\* SURPLUS SIGNATURES: more signatures than the threshold (m < sn <= n, and sn = n + 1 where the list wraps around to
\* the first key again); every key order incl. duplicates, canonical encodings.  VerifyMultiSignature examines the
\* first m only, so these are accepted like their exact-threshold counterparts - and must name the same accounts.
WrapSigs(ks, sn) == [i \in 1..sn |-> Good(ks[((i - 1) % Len(ks)) + 1])]
MultiSurplusN(len) == {[form |-> "multi", keys |-> [i \in DOMAIN ks |-> CK(ks[i])], m |-> m, menc |-> "op",
                        n |-> Len(ks), nenc |-> "op", sigs |-> WrapSigs(ks, sn)]
                       : ks \in SeqsBetween(K3, len, len), m \in 1..len, sn \in 2..(len + 1)}
MultiSurplus == {x \in MultiSurplusN(2) \cup MultiSurplusN(3) : Len(x.sigs) > x.m}
SmallC17 == SingleV \cup MultiOrder \cup MultiSurplus
SubmitC17 ==
    \/ \E s \in SmallC17 : Submit(Tx1(PSet(1), s))
    \/ \E a \in KDall, b \in KDall, m \in 1..2 : Submit(Tx1(PSet(1), MultiEncSet(a, b, m)))
    \/ \E s \in SingleV \cup {x \in MultiOrder : x.nenc = "op"} \cup MultiSurplus :
           Submit([payer |-> PSet(1), sets |-> <<Single(1, <<Good(1)>>), s>>])
NextC17 == (phase = "idle" /\ SubmitC17) \/ Other
SpecC17 == Init /\ [][NextC17]_vars

-----------------------------------------------------------------------------
\* Row export.  Every behaviour is  Submit ; VerifyTransaction ; [ExecFresh | Mutate* ; VerifyTransaction]  and
\* (tx, phase, mutated, pre) determine the whole state (verdict/signed/raw/facts are functions of them, see the actions), so
\* each printed row is self-contained: the transaction the action acts on, the action, and the model's outcome.
\* Rows are flat tuples (compact JSON arrays); address sets are exported by equality only.
SetT(s) == <<s.form, [i \in DOMAIN s.keys |-> <<s.keys[i].v, s.keys[i].enc, s.keys[i].push>>], s.m, s.menc, s.n, s.nenc,
             [j \in DOMAIN s.sigs |-> <<s.sigs[j].kind, s.sigs[j].by>>]>>
TxT(t) == <<t.payer.kind, t.payer.i, [i \in DOMAIN t.sets |-> SetT(t.sets[i])]>>
\* the accounts the scripts of an accepted transaction stand for (facts.accts), as descriptors the harness can
\* realise with real keys: <<"single", <<k>>, 1>> | <<"multi", keys sorted, m>>
AcctT(s) == LET p == Parse(ScriptOf(s)) IN
            IF Len(p.keys) = 1 THEN <<"single", <<p.keys[1].v>>, 1>> ELSE <<"multi", SortKeys(KeyVals(p.keys)), p.m>>
Row ==
    IF act'.name = "VerifyTransaction"
    THEN <<"V", TxT(tx), mutated, verdict', facts'.txok, facts'.dup, facts'.exact, pre, facts'.malex>>
    ELSE IF act'.name = "ExecFresh"
    THEN <<"X", TxT(tx), raw' = signed', Cardinality(raw'), Cardinality(signed'), facts.canon,
           [i \in DOMAIN tx.sets |-> AcctT(tx.sets[i])], signed' = facts.accts>>
    ELSE <<"M", TxT(tx), act'.name, IF act'.name = "MutateSig" THEN act'.i ELSE 0,
           IF act'.name = "MutateSig" THEN act'.j ELSE 0, TxT(tx')>>
Edge == (act'.name \notin {"Submit", "GetSignatureAddressesEarly", "VerifyAgain"}) => PrintT(<<"ROW", ToJson(Row)>>)
=============================================================================
