SPECIFICATION Spec
CONSTANTS
  Which = "ledger"
  MaxSteps = 3
  Genesis <- GenL
  PeerSets <- SetsL
  SignerSets <- SignersL
  Heights <- H3
  C = 1
  SkipLowerKeyHeight = FALSE
  StoreBeforeCheck = FALSE
  TrustsHeaderLastConfig = TRUE
INVARIANTS EpochSound
CHECK_DEADLOCK FALSE
