SPECIFICATION Spec
CONSTANTS
  Peers <- P2
  N = 2
  PeerH <- H2a
  Byz <- ByzP2
  Honest = "p1"
  Empty <- EmptyNone
  Perms <- Perms2
  MaxFlightHdr = 1
  MaxFlightBlk = 3
  MaxCache = 500
  MaxHdrFwd = 5000
  NextTimes = 3
  NextHeights = 2
  AcceptAnyBlock = TRUE
  AcceptAnyHdrPeer = TRUE
  TimeoutPickCur = TRUE
  SchedCap = 99
  MaxHeld = 0
  RecordAct = FALSE
  Acts <- ActsLive
INVARIANTS TypeOK
PROPERTIES Live
CHECK_DEADLOCK FALSE
