------------------------------ MODULE EvmTx_MC ------------------------------
EXTENDS EvmTx, Json
SendersV == {"S"}
KindsV == [c \in {"FWD", "SDO", "SDS", "STO", "REV", "LOOP", "DD2", "DD0", "DDS", "DRD", "RW"} |->
             CASE c = "FWD" -> "fwd" [] c = "SDO" -> "sdo" [] c = "SDS" -> "sds" [] c = "STO" -> "sto" [] c = "REV" -> "rev"
               [] c = "DD2" -> "dd2" [] c = "DD0" -> "dd0" [] c = "DDS" -> "dds" [] c = "DRD" -> "drd" [] c = "RW" -> "rw" [] OTHER -> "loop"]
GLV == {0, 1, 3}
GPV == {0, 1, 2}
VV == {0, 1}
NDV == {-1, 1}
AllV == SendersV \cup {"R", "B", "FEE", "NEW"} \cup DOMAIN KindsV
BalV == [a \in AllV |-> IF a = "S" THEN 4 ELSE IF a \in {"SDS", "SDO", "DRD"} THEN 1 ELSE IF a \in {"DD2", "DDS"} THEN 2 ELSE 0]
NonceV == [s \in SendersV |-> 0]
Edge == PrintT(<<"EDGE", ToJson([from |-> State, act |-> act', to |-> State'])>>)
InitOut == (TLCGet("level") = 1) => PrintT(<<"INIT", ToJson(State)>>)
=============================================================================
