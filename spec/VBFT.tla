-------------------------------- MODULE VBFT --------------------------------
(* One VBFT height (consensus/vbft/service.go) with N peers, Byzantine set Byz, honest nodes = real handler logic.

   One model step = one event at one honest node followed by the node's internal queues run to quiescence, exactly as the
   replay harness does (strict priority: self-delivered consensus messages (msgC), then BFT actions (bftActionC), then
   self-sent timer events (timer.C)):

     (initial state)     Server.startNewProposal at every honest node (round start: leader proposes, timers armed)
     Deliver(i, m)       Server.run receive loop -> onConsensusMsg -> processProposalMsg -> processMsgEvent
     Timeout(i, t)       Server.processTimerEvent for a PENDING timer t (propose / backoff2 / endorse / commit)
     ByzSend(i, m)       a Byzantine peer sends any message that passes the receive loop's check (its own signature valid)

   Handlers (operators on the node record nd):
     ProcProposal   processMsgEvent, BlockProposalMessage        EndorseBlock   Server.endorseBlock
     ProcEndorse    processMsgEvent, BlockEndorseMessage         CommitBlock    Server.commitBlock
     ProcCommit     processMsgEvent, BlockCommitMessage          Seal           BftAction SealBlock (the seal decision)
     ProposeTO / Backoff2TO / EndorseTO / CommitTO               processTimerEvent / handleProposalTimeout
   Pool operations and decision functions come from VBFTPool (thresholds extracted from the real code).

   Network: every message ever sent stays deliverable (loss, delay, duplication, reordering are all behaviours).
   Named deviation switch  AuthFields : FALSE = as coded (Endorser / Committer / claimed endorser signatures of a message
   are not bound to the authenticated sender), TRUE = intended design (a Byzantine peer can only speak for itself).
   Restrictions (stated in the evidence): timers "random"/"second"/"endorseEmpty" are never fired (they lead to
   makeProposal(empty), which needs a ledger); a node that decided to resync or sealed takes no further steps. *)
EXTENDS VBFTPool

CONSTANTS ProposerSeq, CommitterSet, Byz, AuthFields,
          MaxByz,        \* number of Byzantine sends
          ByzProposals,  \* set of [p, v] a Byzantine peer may propose (its own index, variants)
          ByzClaimSets   \* set of endorser sets a forged commit message may claim

VARIABLES node,    \* honest node records
          sent,    \* messages broadcast by honest nodes: [from, m]
          nbyz,    \* Byzantine sends so far
          act      \* history: last action (not in the view)

Honest == Peers \ Byz
None == [p |-> 0, v |-> 0, e |-> FALSE]
Timers == {"propose", "backoff2", "endorse", "commit", "random"}

RankOf(p) == IF \E k \in 1..Len(ProposerSeq) : ProposerSeq[k] = p
             THEN (CHOOSE k \in 1..Len(ProposerSeq) : ProposerSeq[k] = p) - 1 ELSE Len(ProposerSeq)
Leader == ProposerSeq[1]
Is2nd(i) == RankOf(i) > 0 /\ RankOf(i) <= C
IsEnd(i) == i \in EndorserSet
IsCom(i) == i \in CommitterSet

InitNode == [pool |-> EmptyPool, mpEnd |-> {}, mpProp |-> {}, endorsed |-> 0, endorsedEmpty |-> 0, committed |-> None,
             hasCommitted |-> FALSE, cdone |-> FALSE, sealed |-> None, hasSealed |-> FALSE, resync |-> FALSE, pending |-> {},
             out |-> {}, qm |-> <<>>, qa |-> <<>>, qt |-> <<>>, amb |-> FALSE, started |-> FALSE]

\* ---------------------------------------------------------------- choice among map-order dependent results
OKey(r, o) == (IF r.e = o.pe THEN 0 ELSE 100) + (IF o.hi THEN N - r.p ELSE r.p)
Pick(R, o) == CHOOSE r \in R : \A s \in R : OKey(r, o) <= OKey(s, o)
Oracles == [pe : BOOLEAN, hi : BOOLEAN]

\* the proposal (variant) a node can find for proposer p: blockPool first, then msgPool (findBlockProposal)
FindProp(nd, p) ==
  IF \E q \in nd.pool.props : q.p = p THEN {q \in nd.pool.props : q.p = p}
  ELSE {q \in nd.mpProp : q.p = p}
BestProp(nd) == CHOOSE q \in nd.pool.props : \A r \in nd.pool.props : RankOf(q.p) <= RankOf(r.p)

EndMsg(i, p, v, e, by) == [t |-> "end", i |-> i, p |-> p, v |-> v, e |-> e, by |-> by]
PropMsg(p, v) == [t |-> "prop", p |-> p, v |-> v]
ComMsg(c, p, v, e, es, by) == [t |-> "com", c |-> c, p |-> p, v |-> v, e |-> e, es |-> es, by |-> by]

\* ---------------------------------------------------------------- Server.commitBlock
CommitBlock(nd, i, p, v, fe) ==
  IF p = i \/ nd.hasCommitted THEN nd
  ELSE LET es == {m.i : m \in {x \in nd.mpEnd : x.p = p /\ x.v = v /\ x.e = fe}}
           cm == ComMsg(i, p, v, fe, es, i)
           n1 == [nd EXCEPT !.committed = [p |-> p, v |-> v, e |-> fe], !.hasCommitted = TRUE, !.qm = Append(@, cm)]
       IN IF fe \/ IsCom(i) THEN [n1 EXCEPT !.out = @ \cup {cm}]
          ELSE [n1 EXCEPT !.pending = @ \cup {"commit"}]

\* ---------------------------------------------------------------- Server.endorseBlock
EndorseBlock(nd, i, p, v, forEmpty) ==
  IF p = i THEN nd
  ELSE IF ~forEmpty /\ (nd.endorsed # 0 \/ nd.endorsedEmpty # 0) THEN nd
  ELSE IF forEmpty /\ nd.endorsedEmpty # 0 THEN nd
  ELSE LET fe == forEmpty \/ EndorseFailed(nd.pool)
       IN IF fe /\ nd.endorsedEmpty # 0 THEN nd
          ELSE LET em == EndMsg(i, p, v, fe, i)
                   n1 == IF fe THEN [nd EXCEPT !.endorsedEmpty = p] ELSE [nd EXCEPT !.endorsed = p]
                   n2 == [n1 EXCEPT !.qm = Append(@, em)]
               IN IF fe \/ IsEnd(i) THEN [n2 EXCEPT !.mpEnd = @ \cup {em}, !.out = @ \cup {em}]
                  ELSE [n2 EXCEPT !.pending = @ \cup {"endorse"}]

\* ---------------------------------------------------------------- processMsgEvent
ProcProposal(nd, i, m) ==
  IF KnowsProposal(nd.pool, m.p) /\ [p |-> m.p, v |-> m.v] \notin nd.pool.props THEN nd       \* errDupProposal
  ELSE LET n1 == [nd EXCEPT !.pool = NewProposal(@, m.p, m.v)]
       IN IF m.p = Leader
          THEN LET n2 == [n1 EXCEPT !.pending = @ \ {"propose"}]
               IN IF IsEnd(i) THEN EndorseBlock(n2, i, m.p, m.v, FALSE) ELSE n2
          ELSE n1                                                   \* (a leader re-broadcasts its own proposal here)

ProcEndorse(nd, i, m, o) ==
  LET n1 == [nd EXCEPT !.pool = NewEndorse(@, m.i, m.p, m.e, m.by = m.i)]
  IN IF n1.hasCommitted THEN [n1 EXCEPT !.pending = @ \cup {"commit"}]
     ELSE LET R == EndorseDoneResults(n1.pool)
              n2 == IF IsEnd(m.i) /\ R # {}
                    THEN LET r == Pick(R, o)
                             n3 == [n1 EXCEPT !.pending = @ \ {"endorse"}, !.amb = @ \/ Cardinality(R) > 1]
                             F == FindProp(n3, r.p)
                         IN IF F = {} \/ ~IsCom(i) THEN n3
                            ELSE LET q == CHOOSE q \in F : TRUE IN CommitBlock(n3, i, q.p, q.v, r.e)
                    ELSE n1
          IN IF EndorseFailed(n2.pool) THEN [n2 EXCEPT !.qt = Append(@, "endorse")] ELSE n2

ProcCommit(nd, i, m, o) ==
  LET dup == DupCommit(nd.pool, m)
      same == \E k \in 1..Len(nd.pool.cmsgs) : LET x == nd.pool.cmsgs[k] IN x.c = m.c /\ x.p = m.p /\ x.v = m.v /\ x.e = m.e
  IN IF dup /\ ~same THEN nd                                         \* errDupCommit
     ELSE LET cm == [c |-> m.c, p |-> m.p, v |-> m.v, e |-> m.e, cok |-> m.by = m.c, pok |-> TRUE,
                     es |-> {[i |-> x, ok |-> m.by = m.c /\ \E y \in sent : y.m.t = "end" /\ y.m.i = x /\ y.m.p = m.p /\ y.m.v = m.v /\ y.m.e = m.e] : x \in m.es}]
              n1 == [nd EXCEPT !.pool = NewCommit(@, cm)]
              R == CommitDoneResults(n1.pool)
          IN IF R = {} THEN n1
             ELSE LET r == Pick(R, o)
                      n2 == [n1 EXCEPT !.cdone = TRUE, !.amb = @ \/ Cardinality(R) > 1]
                      F == FindProp(n2, r.p)
                  IN IF F = {} THEN n2
                     ELSE LET q == CHOOSE q \in F : TRUE
                              n3 == IF IsCom(i) THEN CommitBlock(n2, i, q.p, q.v, r.e) ELSE n2
                          IN [n3 EXCEPT !.pending = @ \ {"commit"}, !.qa = Append(@, [a |-> "seal", p |-> q.p, v |-> q.v, e |-> r.e])]

\* ---------------------------------------------------------------- processTimerEvent
ProposeTO(nd, i) ==
  IF nd.endorsed # 0 \/ nd.endorsedEmpty # 0 THEN nd
  ELSE IF nd.pool.props = {} THEN [nd EXCEPT !.pending = @ \cup {"random"}]
  ELSE LET q == BestProp(nd)
       IN IF q.p = Leader THEN nd ELSE [nd EXCEPT !.qa = Append(@, [a |-> "endorse", p |-> q.p, v |-> q.v, e |-> FALSE])]

MakeProposal(nd, i) ==
  [nd EXCEPT !.mpProp = @ \cup {[p |-> i, v |-> 0]}, !.qm = Append(@, PropMsg(i, 0)), !.out = @ \cup {PropMsg(i, 0)}]

Backoff2TO(nd, i) ==
  IF nd.endorsed # 0 \/ nd.endorsedEmpty # 0 THEN nd
  ELSE IF nd.pool.props = {} /\ Is2nd(i) THEN MakeProposal(nd, i) ELSE nd

EndorseTO(nd, i, o) ==
  IF nd.hasCommitted THEN nd
  ELSE LET R == EndorseDoneResults(nd.pool)
       IN IF R # {}
          THEN LET r == Pick(R, o)
                   n1 == [nd EXCEPT !.amb = @ \/ Cardinality(R) > 1]
                   F == FindProp(n1, r.p)
               IN IF F = {} THEN [n1 EXCEPT !.pending = @ \cup {"endorse"}]
                  ELSE LET q == CHOOSE q \in F : TRUE IN CommitBlock(n1, i, q.p, q.v, r.e)
          ELSE IF nd.endorsedEmpty # 0 THEN nd
          ELSE IF nd.pool.props = {} THEN [nd EXCEPT !.resync = TRUE]
          ELSE LET q == BestProp(nd) IN EndorseBlock(nd, i, q.p, q.v, TRUE)

CommitTO(nd, i, o) ==
  IF nd.cdone THEN nd
  ELSE LET R == CommitDoneResults(nd.pool)
       IN IF R = {} THEN [nd EXCEPT !.resync = TRUE]
          ELSE LET r == Pick(R, o)
                   n1 == [nd EXCEPT !.cdone = TRUE, !.amb = @ \/ Cardinality(R) > 1]
                   F == FindProp(n1, r.p)
               IN IF F = {} THEN [n1 EXCEPT !.resync = TRUE]
                  ELSE LET q == CHOOSE q \in F : TRUE IN [n1 EXCEPT !.qa = Append(@, [a |-> "seal", p |-> q.p, v |-> q.v, e |-> r.e])]

TimerEvent(nd, i, t, o) ==
  CASE t = "propose" -> ProposeTO(nd, i)
    [] t = "backoff2" -> Backoff2TO(nd, i)
    [] t = "endorse" -> EndorseTO(nd, i, o)
    [] t = "commit" -> CommitTO(nd, i, o)
    [] OTHER -> nd

\* ---------------------------------------------------------------- the node's internal queues, run to quiescence
ProcMsg(nd, i, m, o) ==
  CASE m.t = "prop" -> ProcProposal(nd, i, m)
    [] m.t = "end" -> ProcEndorse(nd, i, m, o)
    [] m.t = "com" -> ProcCommit(nd, i, m, o)

ProcAction(nd, i, a) ==
  CASE a.a = "endorse" -> EndorseBlock(nd, i, a.p, a.v, a.e)
    [] a.a = "propose" -> IF [p |-> i, v |-> 0] \in nd.mpProp THEN nd ELSE MakeProposal(nd, i)
    [] a.a = "seal" -> IF nd.hasSealed THEN nd ELSE [nd EXCEPT !.sealed = [p |-> a.p, v |-> a.v, e |-> a.e], !.hasSealed = TRUE]

RECURSIVE Pump(_, _, _)
Pump(nd, i, o) ==
  IF nd.hasSealed THEN [nd EXCEPT !.qm = <<>>, !.qa = <<>>, !.qt = <<>>]
  ELSE IF nd.qm # <<>> THEN Pump(ProcMsg([nd EXCEPT !.qm = Tail(@)], i, Head(nd.qm), o), i, o)
  ELSE IF nd.qa # <<>> THEN Pump(ProcAction([nd EXCEPT !.qa = Tail(@)], i, Head(nd.qa)), i, o)
  ELSE IF nd.qt # <<>> THEN Pump(TimerEvent([nd EXCEPT !.qt = Tail(@)], i, Head(nd.qt), o), i, o)
  ELSE nd

Active(i) == ~node[i].hasSealed /\ ~node[i].resync
Finish(i, nd) ==
  /\ node' = [node EXCEPT ![i] = [nd EXCEPT !.out = {}]]
  /\ sent' = sent \cup {[from |-> i, m |-> m] : m \in nd.out}

\* ---------------------------------------------------------------- actions
\* Server.startNewProposal at every honest node is part of the initial state (the replay starts all honest nodes first)
StartNode(i) ==
  LET n0 == [InitNode EXCEPT !.started = TRUE]
      n1 == IF i = Leader THEN [n0 EXCEPT !.qa = Append(@, [a |-> "propose"])]
            ELSE IF Is2nd(i) THEN [n0 EXCEPT !.pending = @ \cup {"backoff2"}] ELSE n0
      n2 == [n1 EXCEPT !.pending = @ \cup {"propose"}]
  IN Pump(n2, i, [pe |-> FALSE, hi |-> FALSE])

\* onConsensusMsg: duplicate check on the message pool, then the message pool is updated and the message is processed
Intake(nd, m) ==
  CASE m.t = "prop" -> IF [p |-> m.p, v |-> m.v] \in nd.mpProp THEN nd
                       ELSE [nd EXCEPT !.mpProp = @ \cup {[p |-> m.p, v |-> m.v]}, !.qm = Append(@, m)]
    [] m.t = "end" -> IF m \in nd.mpEnd THEN nd ELSE [nd EXCEPT !.mpEnd = @ \cup {m}, !.qm = Append(@, m)]
    [] m.t = "com" -> [nd EXCEPT !.qm = Append(@, m)]

Deliver(i, s, o) ==
  /\ node[i].started /\ Active(i) /\ s.from # i
  /\ Finish(i, Pump(Intake([node[i] EXCEPT !.amb = FALSE], s.m), i, o))
  /\ UNCHANGED nbyz
  /\ act' = [name |-> "Deliver", node |-> i, from |-> s.from, m |-> s.m]

Timeout(i, t, o) ==
  /\ node[i].started /\ Active(i) /\ t \in node[i].pending /\ t # "random"
  /\ Finish(i, Pump(TimerEvent([node[i] EXCEPT !.pending = @ \ {t}, !.amb = FALSE], i, t, o), i, o))
  /\ UNCHANGED nbyz
  /\ act' = [name |-> "Timeout", node |-> i, timer |-> t]

\* messages a Byzantine peer b can send: its own proposals; endorse / commit messages for any known block.  As coded the
\* Endorser / Committer fields and the claimed endorser signatures are free; with AuthFields they must be b's own.
KnownBlocks == {[p |-> s.m.p, v |-> s.m.v] : s \in {x \in sent : x.m.t = "prop"}} \cup ByzProposals
ByzMsgs(b) ==
  {PropMsg(q.p, q.v) : q \in {x \in ByzProposals : x.p = b}}
  \cup {EndMsg(i, q.p, q.v, e, b) : i \in (IF AuthFields THEN {b} ELSE Peers), q \in KnownBlocks, e \in BOOLEAN}
  \cup {ComMsg(c, q.p, q.v, e, es, b) : c \in (IF AuthFields THEN {b} ELSE Peers), q \in KnownBlocks, e \in BOOLEAN,
                                        es \in (IF AuthFields THEN {{}} ELSE ByzClaimSets)}

ByzSend(i, b, m, o) ==
  /\ nbyz < MaxByz /\ node[i].started /\ Active(i)
  /\ Finish(i, Pump(Intake([node[i] EXCEPT !.amb = FALSE], m), i, o))
  /\ nbyz' = nbyz + 1
  /\ act' = [name |-> "ByzSend", node |-> i, from |-> b, m |-> m]

Init == /\ node = [i \in Honest |-> [StartNode(i) EXCEPT !.out = {}]]
        /\ sent = UNION {{[from |-> i, m |-> m] : m \in StartNode(i).out} : i \in Honest}
        /\ nbyz = 0 /\ act = [name |-> "Init"]
Next ==
  \/ \E i \in Honest, s \in sent, o \in Oracles : Deliver(i, s, o)
  \/ \E i \in Honest, t \in Timers, o \in Oracles : Timeout(i, t, o)
  \/ \E i \in Honest, b \in Byz, o \in Oracles : \E m \in ByzMsgs(b) : ByzSend(i, b, m, o)
vars == <<node, sent, nbyz, act>>
Spec == Init /\ [][Next]_vars

\* ---------------------------------------------------------------- the property
Agreement == \A a, b \in Honest : (node[a].hasSealed /\ node[b].hasSealed) => node[a].sealed = node[b].sealed
=============================================================================
