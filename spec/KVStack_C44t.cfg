SPECIFICATION Spec
CONSTANTS
  KeySeq <- KeySeqC
  Vals <- ValsL
  Acts <- ActsC44
  MaxOps = 7
  DiskInits <- DiskEmpty6
  Contracts <- ContractsC
  Track = TRUE
VIEW view
INVARIANTS TypeOK Refines IterOK NoOrphan
PROPERTIES MigrateOK DestroyOK Tombstoned MarkedDead RefusedNoop
CONSTRAINT InitOut
ACTION_CONSTRAINT Edge
CHECK_DEADLOCK FALSE
