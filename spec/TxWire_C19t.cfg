SPECIFICATION Spec
CONSTANTS
  Cases <- CasesT
  MaxTxSize = 420
PROPERTIES AllOK
ACTION_CONSTRAINT Row
CHECK_DEADLOCK FALSE
