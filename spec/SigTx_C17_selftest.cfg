SPECIFICATION SpecC17
CONSTANTS
  TxSpace <- Small16
  EthKeys <- Eth3
  MaskByPosition = FALSE
  RawScriptFallback = FALSE
  MutClasses <- MutNone
  PreOps <- PreNone
  SkipIfSignedAddr = FALSE
  AddrBySigCount = TRUE
INVARIANTS SignersAreScriptAccounts
CHECK_DEADLOCK FALSE
