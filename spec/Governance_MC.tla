--------------------------- MODULE Governance_MC ---------------------------
(* Model-checking constants of Governance (the same values are given to the Go harness as its *)
(* set-up configuration) and the edge exporter.                                                *)
EXTENDS Governance, Json

MC_GenPeers == {"g1", "g2", "g3", "g4", "g5", "g6", "g7"}
MC_Cand1 == {"p1"}
MC_Cand2 == {"p1", "p2"}
MC_Addrs == {"og", "o1", "o2", "a1", "a2"}
MC_OwnerOf == [p \in MC_GenPeers \cup MC_Cand2 |-> IF p = "p1" THEN "o1" ELSE IF p = "p2" THEN "o2" ELSE "og"]
\* hex public keys ascending: g1 < g2 < ... < g7 < p1 < p2 (the harness assigns its sorted keys in this order)
MC_PkRank == [p \in MC_GenPeers \cup MC_Cand2 |->
                CASE p = "g1" -> 1 [] p = "g2" -> 2 [] p = "g3" -> 3 [] p = "g4" -> 4 [] p = "g5" -> 5
                  [] p = "g6" -> 6 [] p = "g7" -> 7 [] p = "p1" -> 8 [] p = "p2" -> 9]
MC_GenesisPos == [p \in MC_GenPeers |->
                CASE p = "g1" -> 10000 [] p = "g2" -> 10000 [] p = "g3" -> 10500 [] p = "g4" -> 11000 [] p = "g5" -> 12000
                  [] p = "g6" -> 15000 [] p = "g7" -> 20000]
MC_Fund == [a \in MC_Addrs |-> 100000]

MC_RegPos == {10000, 16000}
MC_RegPos1 == {16000}
MC_AuthPos == {500, 1500}
MC_AuthPos1 == {1000}
MC_UnAuthPos == {500, 1000}
MC_WdPos == {500, 1000}
MC_InitDelta == {1000}
MC_FeeVals == {100003, 7}
MC_FeeVals1 == {100003}
MC_CostVals == {<<20, 30>>, <<0, 0>>}
MC_CostVals1 == {<<20, 30>>}
MC_MaxVals == {100000}

MC_Authorizers == {"a1", "a2"}
MC_Targets3 == {"g1", "g7", "p1"}
MC_Targets4 == {"g1", "g7", "p1", "p2"}
MC_AllPeers2 == MC_GenPeers \cup MC_Cand2
ActsAll == {"Register", "SetMax", "Authorize", "UnAuthorize", "Withdraw", "Quit", "Black", "White", "Commit",
            "AddInit", "ReduceInit", "SetCost", "Fee", "WithdrawFee", "TransferPenalty", "SetGas", "SetParam2", "SetParam"}
ActsStake == ActsAll \ {"SetCost", "Fee", "WithdrawFee"}

\* lossless sparse form of the state for the edge export (defaults omitted)
Sparse(pl) == {<<p, pl[p].st, pl[p].init, pl[p].total>> : p \in {q \in Peers : pl[q].st # NoneSt}}
NZ(f, D) == {<<k, f[k]>> : k \in {j \in D : f[j] # 0}}
XState == [pool |-> Sparse(pool), prev |-> Sparse(prev),
           au |-> {<<pa[1], pa[2], au[pa[1]][pa[2]].c, au[pa[1]][pa[2]].d, au[pa[1]][pa[2]].n, au[pa[1]][pa[2]].wc,
                     au[pa[1]][pa[2]].wd, au[pa[1]][pa[2]].wu>> : pa \in {x \in Peers \X Addrs : au[x[1]][x[2]] # ZeroBk}},
           stake |-> NZ(stake, Addrs), pen |-> NZ(pen, Peers), ont |-> NZ(ont, Addrs \cup {"gov"}),
           ong |-> NZ(ong, Addrs \cup {"gov", "dapp"}), fee |-> NZ(fee, Addrs), splitFee |-> splitFee,
           attr |-> {<<p, attr[p].t, attr[p].t1, attr[p].t2, attr[p].s, attr[p].s1, attr[p].s2, attr[p].max>> :
                       p \in {q \in Peers : attr[q] # DefAttr}},
           promise |-> NZ([p \in Peers |-> promise[p] + 1], Peers), black |-> black,
           dappFee |-> dappFee, hasDapp |-> hasDapp,
           splitNum |-> splitNum, pA |-> pA, pB |-> pB, candNum |-> candNum]
XEdge == PrintT(<<"EDGE", ToJson([from |-> XState, act |-> act', to |-> XState'])>>)
XInitOut == (TLCGet("level") = 1) => PrintT(<<"INIT", ToJson(XState)>>)

Edge == PrintT(<<"EDGE", ToJson([from |-> State, act |-> act', to |-> State'])>>)
InitOut == (TLCGet("level") = 1) => PrintT(<<"INIT", ToJson(State)>>)
=============================================================================
