----------------------------- MODULE ChainConfig -----------------------------
(***************************************************************************)
(* VBFT chain configuration and per-round participant selection of         *)
(* ontio/ontology, transcribed as coded:                                   *)
(*   consensus/vbft/config/genesis.go   GenesisChainConfig, shuffle_hash   *)
(*   consensus/vbft/utils.go            GetPeersConfig / getChainConfig,   *)
(*                                      getParticipantSelectionSeed        *)
(*   consensus/vbft/node_utils.go       calcParticipantPeers,              *)
(*                                      calcParticipant                    *)
(* One operator per Go function, one action per call:                      *)
(*   Configure(list)  getChainConfig: GetPeersConfig yields the registered *)
(*                    peers in SOME order (Go map iteration) = list, then  *)
(*                    GenesisChainConfig(conf, list, txhash, height)       *)
(*   Select(vrf)      buildParticipantConfig: calcParticipantPeers on the  *)
(*                    64-byte selection seed vrf                           *)
(* Abstractions (named):                                                   *)
(*   - public keys are naturals ordered like the Go strings (`key`);       *)
(*   - shuffle_hash(txhash, height, id, i) % i is the uninterpreted table  *)
(*     sh[key][i] (the harness evaluates the real fnv hash and feeds the   *)
(*     values to TLC, so the model checked is the model of the real hash); *)
(*   - sha512(sha512(json)) of getParticipantSelectionSeed is an           *)
(*     uninterpreted source of 64-byte strings: Select is offered byte     *)
(*     strings, the bit slicing of calcParticipant is modelled exactly;    *)
(*   - FloatCeilExact: math.Ceil(float64(stake)*scale*K/float64(sum)) is   *)
(*     the exact integer ceiling (true for stakes < 2^31, the range used). *)
(* Properties: C30 (OrderFree, TopK, AtLeastOneSlot, MonotoneSlots),       *)
(*             C29 (WellFormed; determinism = Select is a function).       *)
(***************************************************************************)
EXTENDS Integers, Sequences, FiniteSets, TLC

CONSTANTS Pools,       \* set of stake sets; a stake set is a set of [idx, key, stake] with distinct idx and key
          Confs,       \* set of [K, L, C]
          Hashes,      \* set of shuffle hashes [id, t]: t[key][i] \in 0..i-1 stands for shuffle_hash(txhash, height, key, i) % i
          Vrfs,        \* set of selection seeds (sequences of 64 bytes) offered to Select
          ListsOf(_),  \* the orderings of a stake set offered to Configure (all permutations, or a sample)
          Acts         \* enabled action names

VARIABLES pool,    \* the registered peers (governance peer pool: candidate + consensus peers)
          conf,    \* [K, L, C] of the governance contract
          sh,      \* shuffle hash of the current (governance txhash, block height)
          chain,   \* NoChain or the ChainConfig produced by the last Configure
          parts,   \* NoParts or [P, E, Cm] of the last Select
          act      \* last action with its arguments (history variable, not in the VIEW)

vars == <<pool, conf, sh, chain, parts, act>>
view == <<pool, conf, sh, chain, parts>>

NoChain == [none |-> TRUE]
NoParts == [none |-> TRUE]
MAXU32 == -1        \* stands for math.MaxUint32 (TLC integers are 32-bit signed)

\* ------------------------------------------------------------------ helpers
ToSet(s) == {s[i] : i \in DOMAIN s}
InSeq(x, s) == \E i \in DOMAIN s : s[i] = x
Reverse(s) == [i \in 1..Len(s) |-> s[Len(s) + 1 - i]]
Count(x, s) == Cardinality({i \in DOMAIN s : s[i] = x})
CeilDiv(a, b) == (a + b - 1) \div b
Swap(t, a, b) == [t EXCEPT ![a] = t[b], ![b] = t[a]]
Repeat(x, n) == [i \in 1..n |-> x]

\* =================================================================== C30
\* --- genesis.go: sort.SliceStable(peers, less)
Less(a, b) == a.stake > b.stake \/ (a.stake = b.stake /\ a.key > b.key)

RECURSIVE InsertSorted(_, _)
InsertSorted(s, x) == IF s = <<>> THEN <<x>>
                      ELSE IF Less(x, Head(s)) THEN <<x>> \o s
                      ELSE <<Head(s)>> \o InsertSorted(Tail(s), x)
RECURSIVE StableSort(_)
StableSort(s) == IF s = <<>> THEN <<>>
                 ELSE InsertSorted(StableSort(SubSeq(s, 1, Len(s) - 1)), s[Len(s)])

RECURSIVE SumStake(_, _)
SumStake(s, k) == IF k = 0 THEN 0 ELSE s[k].stake + SumStake(s, k - 1)

\* peerRanks[i]; named abstraction FloatCeilExact
Rank(p, scale, K, sum) == IF sum > 0 /\ p.stake > 0 THEN CeilDiv(p.stake * scale * K, sum) ELSE 1

RECURSIVE PreTable(_, _, _)      \* posTable before the shuffle: peers[i].Index repeated peerRanks[i] times
PreTable(sorted, ranks, k) == IF k = 0 THEN <<>>
                              ELSE PreTable(sorted, ranks, k - 1) \o Repeat(sorted[k].idx, ranks[k])

\* for i := len(posTable)-1; i > 0; i-- { j := shuffle_hash(txhash, height, chainPeers[posTable[i]].ID, i) % i; swap(i, j) }
\* i, j are the Go (0-based) indices; TLA+ sequences are 1-based
RECURSIVE Shuffle(_, _, _, _)
Shuffle(t, i, keyOf, h) == IF i <= 0 THEN t
                           ELSE LET j == h[keyOf[t[i + 1]]][i]
                                IN Shuffle(Swap(t, i + 1, j + 1), i - 1, keyOf, h)

\* GenesisChainConfig(conf, peers, txhash, height); peers is a list
GenesisChainConfig(cf, peers, h) ==
  LET sorted == StableSort(peers)
      K      == cf.K
      sum    == SumStake(sorted, K)
      scale  == (cf.L \div K) - 1
      ranks  == [i \in 1..K |-> Rank(sorted[i], scale, K, sum)]
      keyOf  == [x \in {sorted[i].idx : i \in 1..K} |-> (CHOOSE i \in 1..K : sorted[i].idx = x)]
      keyOfK == [x \in DOMAIN keyOf |-> sorted[keyOf[x]].key]
      pre    == PreTable(sorted, ranks, K)
  IN IF scale <= 0 THEN [err |-> "L is equal or less than K"]
     ELSE [N        |-> K,
           C        |-> cf.C,
           peers    |-> [i \in 1..K |-> [idx |-> sorted[i].idx, key |-> sorted[i].key]],
           posTable |-> Shuffle(pre, Len(pre) - 1, keyOfK, h)]

IsChain(c) == "posTable" \in DOMAIN c

\* --- the property predicates of C30, stated on (stake set, configuration, output)
StakeOf(pl, x) == (CHOOSE p \in pl : p.idx = x).stake
Selected(c) == {c.peers[i].idx : i \in DOMAIN c.peers}
TopK(pl, cf, c) ==
  /\ Len(c.peers) = cf.K /\ Cardinality(Selected(c)) = cf.K
  /\ Selected(c) \subseteq {p.idx : p \in pl}
  /\ \A p \in pl : p.idx \in Selected(c) => \E i \in DOMAIN c.peers : c.peers[i] = [idx |-> p.idx, key |-> p.key]
  /\ \A p, q \in pl : (p.idx \in Selected(c) /\ q.idx \notin Selected(c)) => p.stake >= q.stake
  /\ ToSet(c.posTable) \subseteq Selected(c)
AtLeastOneSlot(c) == \A x \in Selected(c) : Count(x, c.posTable) >= 1
MonotoneSlots(pl, c) == \A x, y \in Selected(c) :
                           StakeOf(pl, x) > StakeOf(pl, y) => Count(x, c.posTable) >= Count(y, c.posTable)
ConfigOK(pl, cf, c) == IsChain(c) /\ TopK(pl, cf, c) /\ AtLeastOneSlot(c) /\ MonotoneSlots(pl, c)

\* canonical ordering of a stake set (ascending idx), the reference for OrderFree
RECURSIVE ListBy(_)
ListBy(pl) == IF pl = {} THEN <<>>
              ELSE LET m == CHOOSE p \in pl : \A q \in pl : p.idx <= q.idx
                   IN <<m>> \o ListBy(pl \ {m})

\* =================================================================== C29
Pow2(n) == 2 ^ n

\* calcParticipant(vrf, dposTable, k): k is 0-based, vrf is the 64-byte seed
CalcParticipant(vrf, table, k) ==
  LET bIdx  == k \div 8
      bits1 == k % 8
      bits2 == 8 + bits1
      v1    == vrf[bIdx + 1] \div Pow2(bits1)                       \* uint32(vrf[bIdx]) >> bits1
      v2    == IF bIdx + 1 < Len(vrf) THEN vrf[bIdx + 2] ELSE vrf[1]
      v2m   == v2 % Pow2(bits2)                                     \* v2 & ((1 << bits2) - 1)
      v     == v2m * Pow2(8 - bits1) + v1
  IN IF k >= 512 THEN MAXU32 ELSE table[(v % Len(table)) + 1]

\* step 1 of calcParticipantPeers: for i := 0; i < len(PosTable); i++ {...}
RECURSIVE SelLoop(_, _, _, _)
SelLoop(vrf, c, i, peers) ==
  IF i >= Len(c.posTable) THEN peers
  ELSE LET id == CalcParticipant(vrf, c.posTable, i)
       IN IF id = MAXU32 THEN peers
          ELSE IF InSeq(id, peers) THEN SelLoop(vrf, c, i + 1, peers)
          ELSE LET p2 == Append(peers, id)
               IN IF Len(p2) > (c.C + 1) + ((2 * c.C + 1) * 2) \/ Len(p2) = c.N THEN p2
                  ELSE SelLoop(vrf, c, i + 1, p2)

\* if len(peerMap) <= c*3 { for _, peer := range chain.Peers {...} }
RECURSIVE FillLoop(_, _, _)
FillLoop(c, j, peers) ==
  IF j > Len(c.peers) THEN peers
  ELSE LET x  == c.peers[j].idx
           p2 == IF InSeq(x, peers) THEN peers ELSE Append(peers, x)
       IN IF Len(p2) > c.C * 3 THEN p2 ELSE FillLoop(c, j + 1, p2)

\* for ... && len(acc) < limit { acc = append(acc, item) } over the items in visiting order
RECURSIVE AppendUntil(_, _, _)
AppendUntil(acc, items, limit) == IF items = <<>> \/ Len(acc) >= limit THEN acc
                                  ELSE AppendUntil(Append(acc, Head(items)), Tail(items), limit)

SelectedPeers(sel, c) == IF Len(sel) <= c.C * 3 THEN FillLoop(c, 1, sel) ELSE sel

CalcParticipantPeers(vrf, c) ==
  LET sel   == SelLoop(vrf, c, 0, <<>>)
      peers == SelectedPeers(sel, c)
      cc    == c.C
      nCm   == 2 * cc + 1
      P     == SubSeq(peers, 1, cc + 1)                              \* peers[0 : c+1]
      n1    == (Len(peers) - Len(P)) \div 2
      E0    == SubSeq(peers, cc + 2, cc + 1 + n1)                    \* peers[c+1 : c+1+n1]
      Cm0   == SubSeq(peers, cc + 2 + n1, Len(peers))                \* peers[c+1+n1 :]
      E     == IF Len(E0) < nCm
               THEN LET e1 == Append(E0, P[cc + 1])                  \* propsers[c]
                        e2 == AppendUntil(e1, Reverse(Cm0), nCm)     \* committers, last first
                    IN AppendUntil(e2, Reverse(SubSeq(P, 2, cc)), nCm)   \* propsers[c-1] .. propsers[1]
               ELSE E0
      Cm    == IF Len(Cm0) < nCm
               THEN LET c1 == AppendUntil(Cm0, SubSeq(P, 2, Len(P)), nCm) \* propsers[1] ..
                    IN AppendUntil(c1, Reverse(E0), nCm)             \* init endorsers, last first
               ELSE Cm0
  IN IF Len(peers) < cc + 1 THEN [panic |-> "slice bounds"]
     ELSE [P |-> P, E |-> E, Cm |-> Cm,
           \* ghost: which branches of the selection were taken (vacuity control only)
           g |-> [nsel |-> Len(sel), npeers |-> Len(peers)]]

IsParts(p) == "P" \in DOMAIN p

\* a configuration in the property's domain
ValidChain(c) == /\ IsChain(c) /\ c.C >= 1 /\ c.N >= 3 * c.C + 1 /\ Len(c.peers) = c.N
                 /\ Cardinality(Selected(c)) = c.N
                 /\ Len(c.posTable) >= 1 /\ ToSet(c.posTable) \subseteq Selected(c)

WellFormed(p, c) ==
  /\ IsParts(p)
  /\ Len(p.P) = c.C + 1 /\ Cardinality(ToSet(p.P)) = c.C + 1
  /\ Cardinality(ToSet(p.E)) >= 2 * c.C + 1
  /\ Cardinality(ToSet(p.Cm)) >= 2 * c.C + 1
  /\ (ToSet(p.P) \cup ToSet(p.E) \cup ToSet(p.Cm)) \subseteq Selected(c)

\* =================================================================== transition system
Init == /\ pool \in Pools /\ conf \in Confs /\ sh \in Hashes
        /\ Cardinality(pool) >= conf.K          \* otherwise GenesisChainConfig indexes out of range (not a valid K)
        /\ chain = NoChain /\ parts = NoParts /\ act = [name |-> "Init"]

Configure(list) ==
  /\ "Configure" \in Acts
  /\ chain = NoChain \/ "Reconfigure" \in Acts      \* bound: model-checking runs configure once per behaviour
  /\ chain' = GenesisChainConfig(conf, list, sh.t)
  /\ parts' = NoParts
  /\ act' = [name |-> "Configure", list |-> [i \in DOMAIN list |-> list[i].idx]]
  /\ UNCHANGED <<pool, conf, sh>>

Select(vrf) ==
  /\ "Select" \in Acts
  /\ parts = NoParts \/ "Reselect" \in Acts         \* bound: one round per behaviour unless enabled
  /\ ValidChain(chain)
  /\ parts' = CalcParticipantPeers(vrf, chain)
  /\ act' = [name |-> "Select", vrf |-> vrf]
  /\ UNCHANGED <<pool, conf, sh, chain>>

Next == \/ \E list \in ListsOf(pool) : Configure(list)
        \/ \E vrf \in Vrfs : Select(vrf)

Spec == Init /\ [][Next]_vars

\* ------------------------------------------------------------------ properties
\* C30
\* (chain is unchanged by Select, so the C30 invariants are evaluated on the states right after Configure)
OrderFree  == (chain # NoChain /\ parts = NoParts) => chain = GenesisChainConfig(conf, ListBy(pool), sh.t)
ConfigInv  == (chain # NoChain /\ parts = NoParts) => ConfigOK(pool, conf, chain)
\* C29
WellFormedInv == parts # NoParts => WellFormed(parts, chain)
\* the chain configurations produced by Configure are in the domain of C29 whenever K >= 3C+1
DomainInv == (chain # NoChain /\ parts = NoParts /\ conf.K >= 3 * conf.C + 1 /\ conf.C >= 1) => ValidChain(chain)
=============================================================================
