------------------------------ MODULE Auth_MC ------------------------------
EXTENDS Auth, Json
Ids3 == {"A", "B", "C"}
Roles2 == {"r1", "r2"}
Fns2 == {"f1", "f2"}
FnSets2 == {{"f1"}, {"f2"}}
PersonSets4 == {{"A"}, {"B"}, {"C"}, {"B", "C"}}
Periods2 == {1, 2}
Levels3 == {0, 1, 2}
ModesAll == {"own", "ownplus", "nosig", "other", "revoked", "noindex"}
ModesOwn == {"own", "nosig"}
ActsAll == {"InitAdmin", "Transfer", "AssignFuncs", "AssignIds", "Delegate", "Withdraw", "Verify", "Tick"}

NoDelegs == [p \in Ids3 |-> [r \in Roles2 |-> NoDeleg]]
\* the empty contract
S0 == [admin |-> NoId, funcs |-> [r \in Roles2 |-> {}], tokens |-> [p \in Ids3 |-> {}], deleg |-> NoDelegs,
       now |-> 0, assigned |-> {}]
\* after InitAdmin(A), AssignFuncs(A,r1,{f1}), AssignFuncs(A,r2,{f2}), AssignIds(A,r1,{A}), AssignIds(A,r2,{B})
S1 == [admin |-> "A", funcs |-> ("r1" :> {"f1"} @@ "r2" :> {"f2"}),
       tokens |-> ("A" :> {"r1"} @@ "B" :> {"r2"} @@ "C" :> {}), deleg |-> NoDelegs,
       now |-> 0, assigned |-> {<<"A", "r1">>, <<"B", "r2">>}]
\* S1 followed by Delegate(A -> B, r1, period 1, level 1): two ticks later the delegation has expired
S2 == [S1 EXCEPT !.deleg = [NoDelegs EXCEPT !["B"]["r1"] = [root |-> "A", expire |-> 1, level |-> 1]]]
\* S1 followed by AssignIds(A,r1,{B}) (two holders of r1), Delegate(A -> C, r1, period 1, level 1), Tick, Tick:
\* C's delegation entry rooted in A has EXPIRED but is still stored; a delegation by B renews that entry in place
S3 == [S1 EXCEPT !.tokens = [@ EXCEPT !["B"] = {"r1", "r2"}],
                 !.assigned = @ \cup {<<"B", "r1">>},
                 !.deleg = [NoDelegs EXCEPT !["C"]["r1"] = [root |-> "A", expire |-> 1, level |-> 1]],
                 !.now = 2]
Inits3 == {S3}
Inits2 == {S2}
Inits0 == {S0}
Inits1 == {S1}
Inits01 == {S0, S1}
InitsAll == {S0, S1, S2, S3}

Edge == PrintT(<<"EDGE", ToJson([from |-> State, act |-> act', to |-> State'])>>)
InitOut == (TLCGet("level") = 1) => PrintT(<<"INIT", ToJson(State)>>)
=============================================================================
