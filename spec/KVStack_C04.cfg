SPECIFICATION Spec
CONSTANTS
  KeySeq <- KeySeq3
  Vals <- ValsL
  Acts <- ActsC04
  MaxOps = 5
  DiskInits <- DiskAll3
  Contracts <- NoContracts
  Track = TRUE
VIEW view
INVARIANTS TypeOK Refines IterOK
PROPERTIES CommitOK ResetOK OvlCommitOK
CONSTRAINT InitOut
ACTION_CONSTRAINT Edge
CHECK_DEADLOCK FALSE
