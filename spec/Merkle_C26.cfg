SPECIFICATION SpecA
CONSTANTS
  MaxN = 8
  MaxK = 0
  EqRootShortcut = FALSE
  EqSizeIgnoresProof = TRUE
  ZeroOldShortcut = TRUE
  Tear = TRUE
  MutLevel = 2
  BigInit <- GenBig
  Pairs <- GenPairs
VIEW view
INVARIANTS RootOK FileOK ProofGenOK CompleteOK
PROPERTIES InclSoundOK ConsSoundOK DeviationOK
CONSTRAINT InitOutA
ACTION_CONSTRAINT EdgeA
CHECK_DEADLOCK FALSE
