SPECIFICATION SpecC16t
CONSTANTS
  TxSpace <- Small16
  EthKeys <- NoKeys
  MaskByPosition = TRUE
  RawScriptFallback = TRUE
  MutClasses <- MutAll
INVARIANTS SoundUpToDupKeys MutatedRejected
ACTION_CONSTRAINT Edge
CHECK_DEADLOCK FALSE
