SPECIFICATION SpecC16t
CONSTANTS
  TxSpace <- Small16
  EthKeys <- NoKeys
  MaskByPosition = FALSE
  RawScriptFallback = FALSE
  MutClasses <- MutAll
  PreOps <- PreAll
  SkipIfSignedAddr = FALSE
  AddrBySigCount = FALSE
INVARIANTS Sound VerdictPure MutatedRejected SameSigners MalformedNeverCounts SignersAreScriptAccounts
ACTION_CONSTRAINT Edge
CHECK_DEADLOCK FALSE
