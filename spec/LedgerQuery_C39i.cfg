SPECIFICATION Spec
CONSTANTS
  Shapes <- ShapesC39
  MaxBlocks = 1
  Paths <- AllPaths
  Muts <- Single
  PreKinds <- NoKinds
  DuringKinds <- NoKinds
  Points <- NoKinds
  W = 2
  S = 2
  BitsOf <- RealBits
  BodyChecked = TRUE
  AllowRestart = TRUE
  AllowSync = TRUE
  FreshInits <- BothFresh
VIEW view
INVARIANTS TypeOK Coherent
PROPERTIES RejectedUnchanged OnlyValidCommitted
CHECK_DEADLOCK FALSE
