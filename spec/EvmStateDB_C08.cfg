SPECIFICATION Spec
CONSTANTS
  Addrs <- A1
  Slots <- S1
  Vals <- V1
  MaxNonce = 1
  Codes <- C1
  MaxBal = 1
  MaxLogs = 1
  MaxRefund = 1
  MaxSnaps = 2
  MaxOps = 5
  Acts <- ActsAll
  BaseInits <- Bases1
VIEW view
INVARIANTS TypeOK SavedOK
PROPERTIES RevertOK DiscardKeeps
CONSTRAINT InitOut
ACTION_CONSTRAINT Edge
CHECK_DEADLOCK FALSE
