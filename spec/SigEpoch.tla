------------------------------ MODULE SigEpoch ------------------------------
(***************************************************************************)
(* Peer-set bookkeeping behind the header checks (stateful part of C32 and *)
(* C33): WHICH peer set a header is verified against, over multi-step      *)
(* histories.  All headers here carry valid signatures of all their listed *)
(* (distinct) bookkeepers, so only the choice of the peer set is at stake  *)
(* (signature counting is SigHeader's subject).                            *)
(*                                                                         *)
(* Which = "sync":  header_sync SyncBlockHeader -> VerifyHeader,           *)
(*   putConsensusPeers / KeyHeights / findKeyHeight.  Headers of any       *)
(*   height may arrive in any order; a header carrying a new peer set is a *)
(*   key header.  Named deviation SkipLowerKeyHeight (FALSE = the code):   *)
(*   a key height is not recorded when a larger one is already known.      *)
(* Which = "ledger": LedgerStoreImp.verifyHeader behind AddHeader (next    *)
(*   header height) and AddBlock (next block height = 1: header sync is    *)
(*   ahead of block sync), vbftPeerInfoMap.  Named deviation               *)
(*   StoreBeforeCheck (FALSE = the code): the peer set announced by a      *)
(*   config-change header is stored before the header is checked.          *)
(*   Named deviation TrustsHeaderLastConfig (TRUE = the code as FOUND, by  *)
(*   TLC on this model; repaired by fix 9fb470ca, the check runs FALSE):   *)
(*   the configuration height is taken from the header's own               *)
(*   LastConfigBlockNum, so a header may point at a superseded config.     *)
(***************************************************************************)
EXTENDS Naturals, Sequences, FiniteSets, TLC

CONSTANTS Which, MaxSteps,
          Genesis,          \* the genesis peer set (set of keys)
          PeerSets,         \* peer sets a header may announce
          SignerSets,       \* sets of keys that sign (and are listed by) a header
          Heights,          \* header heights
          C,                \* ledger: C of every chain configuration
          SkipLowerKeyHeight, StoreBeforeCheck,
          TrustsHeaderLastConfig   \* ledger, named deviation (TRUE = as found, FALSE = since 9fb470ca): without NewChainConfig the
                                   \* governing configuration is looked up at the header's OWN LastConfigBlockNum field

VARIABLES peersAt,     \* height -> peer set stored for that (key / config-change) height
          keyHeights,  \* sync: the contract's KeyHeights list (as a set)
          chain,       \* ledger: accepted headers by height (sequence of records); sync: set of stored heights
          hist         \* the steps so far, each with the model's verdict and the property's judgement
vars == <<peersAt, keyHeights, chain, hist>>

None == {}
MaxOf(S) == CHOOSE x \in S : \A y \in S : y <= x
Below(S, x) == {v \in S : v < x}

-----------------------------------------------------------------------------
(* header_sync *)
\* findKeyHeight: the largest recorded key height below the header's height
SyncPeersFor(x) == IF Below(keyHeights, x) = {} THEN None ELSE peersAt[MaxOf(Below(keyHeights, x))]
\* the peer set in force: the latest STORED key header below x
SyncGoverning(x) == peersAt[MaxOf(Below(DOMAIN peersAt, x))]
TwoThirds(signers, peers) == 3 * Cardinality(signers) >= 2 * Cardinality(peers)

SyncAccept(h) == LET p == SyncPeersFor(h.height) IN
                 p # None /\ TwoThirds(h.signers, p) /\ h.signers \subseteq p
SyncOK(h) == TwoThirds(h.signers \cap SyncGoverning(h.height), SyncGoverning(h.height))

SyncBlockHeader(h) ==
    /\ Which = "sync" /\ Len(hist) < MaxSteps
    /\ h.height \notin chain                        \* an already stored height is skipped by the contract
    /\ LET acc == SyncAccept(h) IN
       /\ hist' = Append(hist, [op |-> "SyncBlockHeader", h |-> h, acc |-> acc, ok |-> SyncOK(h), stale |-> FALSE])
       /\ IF acc
          THEN /\ chain' = chain \cup {h.height}
               /\ IF h.cfg # None
                  THEN /\ peersAt' = [x \in DOMAIN peersAt \cup {h.height} |-> IF x = h.height THEN h.cfg ELSE peersAt[x]]
                       /\ keyHeights' = IF SkipLowerKeyHeight /\ MaxOf(keyHeights) >= h.height
                                        THEN keyHeights ELSE keyHeights \cup {h.height}
                  ELSE UNCHANGED <<peersAt, keyHeights>>
          ELSE UNCHANGED <<peersAt, keyHeights, chain>>

-----------------------------------------------------------------------------
(* ledger *)
HeaderHeight == Len(chain)                           \* genesis is height 0, chain[i] is the header of height i
CfgOf(x) == IF x = 0 THEN Genesis ELSE chain[x].cfg  \* NewChainConfig peers of the accepted header at height x
LastCfgOf(x) == IF x = 0 THEN 0 ELSE chain[x].lastcfg
\* the configuration in force at height x: the latest ACCEPTED config-change header below x
LatestCfgHeight(x) == MaxOf({v \in 0..(x - 1) : v <= HeaderHeight /\ CfgOf(v) # None})
LedgerGoverning(x) == CfgOf(LatestCfgHeight(x))
StaleRef(h) == h.cfg = None /\ h.lastcfg # LatestCfgHeight(h.height)

\* verifyHeader as coded; prev = the indexed header of height h.height - 1
\* the configuration height verifyHeader uses.  Since fix 9fb470ca it is always derived from the previous header;
\* as found (TrustsHeaderLastConfig) a header without NewChainConfig named it itself
PrevDerived(h) == IF CfgOf(h.height - 1) # None THEN h.height - 1 ELSE LastCfgOf(h.height - 1)
ConfigHeightFor(h) == IF h.cfg # None \/ ~TrustsHeaderLastConfig THEN PrevDerived(h)
                      ELSE h.lastcfg                 \* the header's own LastConfigBlockNum
LedgerAccept(h, pm) ==
    LET ch == ConfigHeightFor(h) IN
    /\ (TrustsHeaderLastConfig \/ h.cfg # None \/ h.lastcfg = ch)   \* "header lastConfigBlockNum is incorrect"
    /\ ch <= HeaderHeight /\ ch < h.height + 1
    /\ CfgOf(ch) # None                              \* "cannot find newchainconfig header"
    /\ ch \in DOMAIN pm                              \* "chainconfig height not found"
    /\ h.signers \subseteq pm[ch]                    \* "invalid pubkey"
    /\ Cardinality(h.signers) >= C + 1
LedgerOK(h) == Cardinality(h.signers \cap LedgerGoverning(h.height)) >= C + 1

Stored(pm, h) == [x \in DOMAIN pm \cup {h.height} |-> IF x = h.height THEN h.cfg ELSE pm[x]]
\* what verifyHeader leaves in vbftPeerInfoMap
AfterVerify(h, acc) ==
    IF h.cfg # None /\ (acc \/ StoreBeforeCheck) THEN Stored(peersAt, h) ELSE peersAt
\* the map the checks of this very header read (the early store happens first)
MapSeenBy(h) == IF h.cfg # None /\ StoreBeforeCheck THEN Stored(peersAt, h) ELSE peersAt

AddHeader(h) ==
    /\ Which = "ledger" /\ Len(hist) < MaxSteps
    /\ h.height = HeaderHeight + 1
    /\ LET acc == LedgerAccept(h, MapSeenBy(h)) IN
       /\ hist' = Append(hist, [op |-> "AddHeader", h |-> h, acc |-> acc, ok |-> LedgerOK(h), stale |-> StaleRef(h)])
       /\ peersAt' = AfterVerify(h, acc)
       /\ chain' = IF acc THEN Append(chain, h) ELSE chain
       /\ UNCHANGED keyHeights

\* a block for the next BLOCK height (1) while headers are ahead; only headers the model rejects are offered
\* (an accepted one would go on to execute the block, which is LedgerCommit's subject)
AddBlock(h) ==
    /\ Which = "ledger" /\ Len(hist) < MaxSteps
    /\ h.height = 1 /\ HeaderHeight >= 1
    /\ ~LedgerAccept(h, MapSeenBy(h))
    /\ hist' = Append(hist, [op |-> "AddBlock", h |-> h, acc |-> FALSE, ok |-> LedgerOK(h), stale |-> StaleRef(h)])
    /\ peersAt' = AfterVerify(h, FALSE)
    /\ UNCHANGED <<chain, keyHeights>>

-----------------------------------------------------------------------------
Hdrs == [height : Heights, signers : SignerSets, cfg : PeerSets \cup {None}, lastcfg : {0, 1}]

Init == /\ peersAt = [x \in {0} |-> Genesis]
        /\ keyHeights = {0}
        /\ chain = IF Which = "sync" THEN {0} ELSE <<>>
        /\ hist = <<>>
Next == \E h \in Hdrs : \/ (h.lastcfg = 0 /\ SyncBlockHeader(h))
                        \/ AddHeader(h) \/ AddBlock(h)
Spec == Init /\ [][Next]_vars

\* the property on histories: whatever is accepted carries the quorum of the peer set in force
EpochSound == \A i \in DOMAIN hist : hist[i].acc => hist[i].ok
\* with TrustsHeaderLastConfig every unsound acceptance is a header pointing at a superseded configuration
EpochSoundUpToStale == \A i \in DOMAIN hist : (hist[i].acc /\ ~hist[i].ok) =>
                           (TrustsHeaderLastConfig /\ \E j \in 1..i : hist[j].acc /\ hist[j].stale)
=============================================================================
