SPECIFICATION Spec
CONSTANTS
  AddrNegCountPanic = TRUE
  OfflineSigSkipped = TRUE
  Level = 2
  ExtraBases <- ExtraGen
VIEW view
PROPERTIES HeaderChecksOK RoundTripOK IdempotentOK ReproOK DeviationOK
CONSTRAINT InitOut
ACTION_CONSTRAINT Edge
CHECK_DEADLOCK FALSE
