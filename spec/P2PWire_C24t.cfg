SPECIFICATION Spec
CONSTANTS
  AddrNegCountPanic = FALSE
  OfflineSigSkipped = FALSE
  Level = 2
  ExtraBases <- ExtraGen
VIEW view
PROPERTIES HeaderChecksOK RoundTripOK IdempotentOK ReproOK DeviationOK WrapRejected IndependentOK
CONSTRAINT InitOut
ACTION_CONSTRAINT Edge
CHECK_DEADLOCK FALSE
