SPECIFICATION Spec
CONSTANTS
  Which = "sync"
  MaxSteps = 3
  Genesis <- GenS
  PeerSets <- SetsS
  SignerSets <- SignersS
  Heights <- H3
  C = 1
  SkipLowerKeyHeight = FALSE
  StoreBeforeCheck = FALSE
  TrustsHeaderLastConfig = FALSE
INVARIANTS EpochSound
CONSTRAINT RowOut
CHECK_DEADLOCK FALSE
