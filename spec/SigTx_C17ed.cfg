SPECIFICATION SpecC17
CONSTANTS
  TxSpace <- Small16
  EthKeys <- NoKeys
  MaskByPosition = TRUE
  RawScriptFallback = TRUE
  MutClasses <- MutNone
INVARIANTS SameSignersUpToCanon CanonAgree SoundUpToDupKeys
ACTION_CONSTRAINT Edge
CHECK_DEADLOCK FALSE
