-------------------------- MODULE NeoVMInterop_MC --------------------------
EXTENDS NeoVMInterop, Json
BothModes == {"tx", "pre"}
BothApis == {"new", "legacy"}
NoDeviation == {}
\* "what if" exploration: every producer with an absent target hands out a handle to nothing; the behaviours of
\* this model are the adversarial scripts (producer for an absent target, then every consumer of the handle)
AllProducers == {"GetHeader", "GetBlock", "GetTransaction", "GetContract", "Create"}

Edge == PrintT(<<"EDGE", ToJson([from |-> State, act |-> act', to |-> State'])>>)
InitOut == (TLCGet("level") = 1) => PrintT(<<"INIT", ToJson(State)>>)
=============================================================================
