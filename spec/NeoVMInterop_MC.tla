-------------------------- MODULE NeoVMInterop_MC --------------------------
EXTENDS NeoVMInterop, Json
BothModes == {"tx", "pre"}
BothApis == {"new", "legacy"}
NoDeviation == {}
\* deviation cfgs (TLC must report Total / NoNilHandle violated: the specification can express the failure class)
DevGetContract == {"GetContract"}
DevGetBlock == {"GetBlock"}
DevCreate == {"Create"}

Edge == PrintT(<<"EDGE", ToJson([from |-> State, act |-> act', to |-> State'])>>)
InitOut == (TLCGet("level") = 1) => PrintT(<<"INIT", ToJson(State)>>)
=============================================================================
