SPECIFICATION Spec
CONSTANTS
  Kinds <- KindsAll
  NeedsWitness <- Needs
  FeeKinds <- Fees
  ParamKind = "setparam"
  MaxParam = 0
  MaxRestart = 0
  StaleGasTable = FALSE
  Variants <- QuickVariants
  SameAddr <- ProbedSameAddr
  MaxTx = 2
  MaxBlocks = 1
  EnvKinds <- KindsEnv
  Paths <- PathsOne
  EnvFromIndex = FALSE
  LazyFromRaw = TRUE
VIEW view
CONSTRAINT InitOut
ACTION_CONSTRAINT Edge
CHECK_DEADLOCK FALSE
