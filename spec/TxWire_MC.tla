----------------------------- MODULE TxWire_MC -----------------------------
(* Model-checking configuration of TxWire: valid deploy / invoke / EIP-155 transactions and the mutation       *)
(* classes of C19.  EIP-155 base transactions (real secp256k1 signatures) come from TxWire_Tab, a module        *)
(* written by props/C19.py from the harness's generator.                                                        *)
EXTENDS TxWire, Json, TxWire_Tab, Integers

Ramp(n, s) == [i \in 1..n |-> (s + i) % 256]
Fill(n, x) == [i \in 1..n |-> x]
Invoke(code) == [kind |-> "invoke", f |-> <<code>>]
Deploy(code, vm, name, ver, author, email, desc) == [kind |-> "deploy", f |-> <<code, <<vm>>, name, ver, author, email, desc>>]
U(type, pl) == [type |-> type, nonce |-> <<1, 0, 0, 0>>, gasPrice |-> <<196, 9, 0, 0, 0, 0, 0, 0>>,
                gasLimit |-> <<32, 78, 0, 0, 0, 0, 0, 0>>, payer |-> Ramp(20, 16), payload |-> pl]
Tx(u, sigs) == [kind |-> "ont", u |-> u, sigs |-> sigs]
Sig1 == <<<<1, 2, 3>>, <<33, 4, 5, 172>>>>
Sig2 == <<<<9, 9>>, <<>>>>
NSigs(n) == [i \in 1..(2 * n) |-> IF i % 2 = 1 THEN <<i>> ELSE <<>>]

B1 == Tx(U(TInvokeNeo, Invoke(<<81, 193>>)), Sig1)
B2 == Tx(U(TInvokeWasm, Invoke(<<>>)), <<>>)
B3 == Tx(U(TDeploy, Deploy(<<1, 2>>, 1, <<110>>, <<118>>, <<97>>, <<101>>, <<100, 100>>)), Sig1)
B4 == Tx(U(TInvokeNeo, Invoke(Fill(253, 7))), Sig1 \o Sig2)

\* ---- the encoding as a sequence of chunks (fixed bytes / length prefixes), so that mutations can address fields
LenChunk(n) == [t |-> "len", b |-> EncVarUint(LenAs8(n))]
Fix(bs) == [t |-> "fix", b |-> bs]
VB(bs) == <<LenChunk(Len(bs)), Fix(bs)>>
PayloadChunks(pl) == IF pl.kind = "invoke" THEN VB(pl.f[1])
                     ELSE VB(pl.f[1]) \o <<Fix(pl.f[2])>> \o VB(pl.f[3]) \o VB(pl.f[4]) \o VB(pl.f[5]) \o VB(pl.f[6]) \o VB(pl.f[7])
UnsignedChunks(tx) == <<Fix(<<0>>), Fix(<<tx.u.type>>), Fix(tx.u.nonce), Fix(tx.u.gasPrice), Fix(tx.u.gasLimit), Fix(tx.u.payer)>>
                      \o PayloadChunks(tx.u.payload) \o <<LenChunk(0)>>
Chunks(tx) == UnsignedChunks(tx) \o <<LenChunk(Len(tx.sigs) \div 2)>> \o Concat([i \in 1..Len(tx.sigs) |-> VB(tx.sigs[i])])
Bytes(chs) == Concat([i \in 1..Len(chs) |-> chs[i].b])
ASSUME \A t \in {B1, B2, B3, B4} : Bytes(Chunks(t)) = EncOnt(t)
\* a minimal length prefix rewritten in a longer form (same value)
Widen(b, form) == LET v == IF Len(b) = 1 THEN <<b[1]>> ELSE Tail(b) IN
                  <<IF form = 3 THEN 253 ELSE IF form = 5 THEN 254 ELSE 255>> \o Pad(v, form - 1)
SetChunk(chs, k, b) == [i \in 1..Len(chs) |-> IF i = k THEN [t |-> chs[i].t, b |-> b] ELSE chs[i]]
BumpByte(bs, j) == [i \in 1..Len(bs) |-> IF i = j THEN (bs[i] + 1) % 256 ELSE bs[i]]

Case(kind, raw, expect) == [kind |-> kind, raw |-> raw, expect |-> expect]
OntCases(tx, PrefixStep) ==
    LET chs == Chunks(tx)
        e == Bytes(chs)
        nu == Len(UnsignedChunks(tx))
    IN {Case("valid", e, "accept"), Case("trailing-bytes", e \o <<0>>, "accept"), Case("trailing-bytes", e \o <<1, 2, 3>>, "accept"),
        Case("version", BumpByte(e, 1), "reject")}
       \cup {Case("type", [i \in 1..Len(e) |-> IF i = 2 THEN t ELSE e[i]], "reject") : t \in {0, 207, 212, 255}}
       \cup {Case("type-other-payload", [i \in 1..Len(e) |-> IF i = 2 THEN t ELSE e[i]], "any") : t \in {208, 209, 210, 211}}
       \cup {Case("truncated", SubSeq(e, 1, k), "reject") : k \in {j \in 0..(Len(e) - 1) : j % PrefixStep = 0 \/ j > Len(e) - 4}}
       \cup UNION {{Case("non-minimal-length", Bytes(SetChunk(chs, k, Widen(chs[k].b, form))), "reject")
                      : form \in {f \in {3, 5, 9} : f > Len(chs[k].b)}} : k \in {j \in 1..Len(chs) : chs[j].t = "len"}}
       \cup {Case("attributes", Bytes(SetChunk(chs, nu, <<a>>)), "reject") : a \in {1, 2, 252}}
       \* edits of the signature list only: same unsigned content
       \cup {Case("sigs-dropped", Bytes(UnsignedChunks(tx)) \o <<0>>, "accept"),
             Case("sig-added", EncOnt(Tx(tx.u, tx.sigs \o Sig2)), "accept"),
             Case("sig-replaced", EncOnt(Tx(tx.u, Sig2)), "accept")}
       \* edits of the unsigned content
       \cup {Case("unsigned-edit", EncOnt(Tx([tx.u EXCEPT !.nonce = BumpByte(@, 1)], tx.sigs)), "accept"),
             Case("unsigned-edit", EncOnt(Tx([tx.u EXCEPT !.gasPrice = BumpByte(@, 2)], tx.sigs)), "accept"),
             Case("unsigned-edit", EncOnt(Tx([tx.u EXCEPT !.gasLimit = BumpByte(@, 8)], tx.sigs)), "accept"),
             Case("unsigned-edit", EncOnt(Tx([tx.u EXCEPT !.payer = BumpByte(@, 20)], tx.sigs)), "accept"),
             Case("unsigned-edit", EncOnt(Tx([tx.u EXCEPT !.payload.f[1] = @ \o <<0>>], tx.sigs)), "accept")}
DeployCases ==
    {Case("deploy-vmflags", EncOnt(Tx(U(TDeploy, Deploy(<<1, 2>>, vm, <<110>>, <<>>, <<>>, <<>>, <<>>)), <<>>)),
          IF vm \in {0, 1, 3} THEN "accept" ELSE "reject") : vm \in {0, 1, 2, 3, 4, 255}}
    \cup {Case("deploy-name-length", EncOnt(Tx(U(TDeploy, Deploy(<<1>>, 1, Fill(n, 65), <<>>, <<>>, <<>>, <<>>)), <<>>)),
               IF n <= 252 THEN "accept" ELSE "reject") : n \in {252, 253}}
    \cup {Case("deploy-email-length", EncOnt(Tx(U(TDeploy, Deploy(<<1>>, 3, <<>>, <<>>, <<>>, Fill(n, 65), <<>>)), <<>>)),
               IF n <= 252 THEN "accept" ELSE "reject") : n \in {252, 253}}
SigCountCases == {Case("sig-count", EncOnt(Tx(U(TInvokeNeo, Invoke(<<0>>)), NSigs(n))), IF n <= 16 THEN "accept" ELSE "reject") : n \in {15, 16, 17, 252}}
                 \cup {Case("sig-count", Bytes(UnsignedChunks(B2)) \o c, "reject") : c \in {<<253, 0, 1>>, <<254, 0, 0, 0, 1>>, <<255, 255, 255, 255, 255, 255, 255, 255, 255>>}}

\* ---- size limit: invoke transactions without signatures whose total length is MaxTxSize + d; the harness rebuilds
\* the same shape around the real MAX_TX_SIZE (`scaled' cases carry delta and the number of trailing bytes)
SizeTx(d) == Tx(U(TInvokeNeo, Invoke(Fill(MaxTxSize + d - 47, 0))), <<>>)      \* 42 + 3 + L + 1 + 1 = MaxTxSize + d
ASSUME \A d \in {0, 1} : Len(EncOnt(SizeTx(d))) = MaxTxSize + d
SizeCases == {[kind |-> "size-limit", raw |-> EncOnt(SizeTx(d)) \o Fill(t, 0), expect |-> IF d + t <= 0 THEN "accept" ELSE "reject",
               scaled |-> [delta |-> d, trail |-> t]] : d \in {-2, -1, 0, 1}, t \in {0, 1}}

\* ---- EIP-155: RLP-level mutations of really signed transactions
EncItems(items) == [i \in 1..Len(items) |-> RlpStr(items[i])]
ListOf(encs) == LET p == Concat(encs) IN IF Len(p) <= 55 THEN <<192 + Len(p)>> \o p ELSE LET l == BE(Len(p)) IN <<247 + Len(l)>> \o l \o p
Wrap(code) == <<0, TEip155>> \o EncVarBytes(code)
LongStr(bs) == <<184, Len(bs)>> \o bs
EipCases(t, PrefixStep) ==
    LET it == t.items
        encs == EncItems(it)
        code == ListOf(encs)
        e == Wrap(code)
        pfx == EncVarUint(LenAs8(Len(code)))
    IN IF t.tag # "valid" THEN {[kind |-> "eip-" \o t.tag, raw |-> e, expect |-> IF t.tag \in {"not-gwei", "big-nonce"} THEN "reject" ELSE "any"]}
       ELSE
       {Case("eip-valid", e, "accept"), Case("eip-trailing-bytes", e \o <<0>>, "accept"),
        Case("eip-version", BumpByte(e, 1), "reject"),
        Case("eip-more-than-one-value", Wrap(code \o <<0>>), "reject"), Case("eip-more-than-one-value", Wrap(code \o <<128>>), "reject"),
        Case("eip-extra-element", Wrap(ListOf(encs \o <<<<128>>>>)), "reject"),
        Case("eip-missing-element", Wrap(ListOf(SubSeq(encs, 1, 8))), "reject"),
        Case("eip-list-size-leading-zero", Wrap(<<249, 0, Len(Concat(encs))>> \o Concat(encs)), "reject"),
        Case("eip-list-size-too-small", Wrap(<<248, Len(Concat(encs)) - 1>> \o Concat(encs)), "reject"),
        Case("eip-list-size-too-big", Wrap(<<248, Len(Concat(encs)) + 1>> \o Concat(encs)), "reject"),
        Case("eip-not-a-list", Wrap(RlpStr(Concat(encs))), "reject"),
        Case("eip-to-19-bytes", Wrap(ListOf(EncItems([it EXCEPT ![4] = IF @ = <<>> THEN Fill(19, 1) ELSE SubSeq(@, 1, 19)]))), "reject"),
        Case("eip-to-21-bytes", Wrap(ListOf(EncItems([it EXCEPT ![4] = Fill(21, 1)]))), "reject"),
        Case("eip-signature-edit", Wrap(ListOf(EncItems([it EXCEPT ![8] = BumpByte(@, Len(@))]))), "any"),
        Case("eip-signature-edit", Wrap(ListOf(EncItems([it EXCEPT ![9] = BumpByte(@, Len(@))]))), "any"),
        Case("eip-unsigned-edit", Wrap(ListOf(EncItems([it EXCEPT ![6] = @ \o <<1>>]))), "any")}
       \cup {Case("eip-outer-non-minimal-length", <<0, TEip155>> \o Widen(pfx, form) \o code, "reject") : form \in {f \in {3, 5, 9} : f > Len(pfx)}}
       \cup {Case("eip-integer-leading-zero", Wrap(ListOf(EncItems([it EXCEPT ![i] = <<0>> \o @]))), "reject") : i \in {1, 2, 3, 5, 7, 8, 9}}
       \cup {Case("eip-single-byte-with-prefix", Wrap(ListOf([encs EXCEPT ![i] = <<129>> \o it[i]])), "reject")
               : i \in {j \in 1..9 : Len(it[j]) = 1 /\ it[j][1] < 128}}
       \cup {Case("eip-string-long-form", Wrap(ListOf([encs EXCEPT ![i] = LongStr(it[i])])), "reject") : i \in {j \in 1..9 : Len(it[j]) \in 2..55}}
       \cup {Case("eip-truncated", SubSeq(e, 1, k), "reject") : k \in {j \in 2..(Len(e) - 1) : j % PrefixStep = 0 \/ j > Len(e) - 3}}

CasesFor(PrefixStep) == UNION {OntCases(t, PrefixStep) : t \in {B1, B2, B3, B4}} \cup DeployCases \cup SigCountCases \cup SizeCases
                        \cup UNION {EipCases(EipTxs[i], PrefixStep) : i \in 1..Len(EipTxs)}
                        \cup {Case("arbitrary", s, "any") : s \in ArbRaw}
CasesQ == CasesFor(5)
CasesT == CasesFor(1)

Row == PrintT(<<"ROW", ToJson([call |-> [kind |-> call'.kind, raw |-> call'.raw, expect |-> call'.expect,
                                         scaled |-> IF "scaled" \in DOMAIN call' THEN call'.scaled ELSE [delta |-> 0, trail |-> -1]],
                               res |-> [v |-> res'.v, err |-> res'.err, n |-> IF res'.v = "reject" THEN 0 ELSE res'.n,
                                        hashterm |-> IF res'.v = "reject" THEN <<>> ELSE res'.hashterm,
                                        reenc |-> IF res'.v = "reject" THEN <<>> ELSE res'.reenc,
                                        embv |-> res'.embv, embn |-> res'.embn]])>>)
=============================================================================
