------------------------------- MODULE TxExec -------------------------------
(***************************************************************************)
(* Execution of invoke transactions inside a block:                        *)
(*   core/store/ledgerstore/ledger_store.go  executeBlock/handleTransaction *)
(*   core/store/ledgerstore/tx_handler.go    HandleInvokeTransaction,       *)
(*                                            costInvalidGas, chargeCostGas *)
(* State = what the block overlay shows (ONG balances `ong`, every other    *)
(* storage entry `store`) + the per-block transaction cache `cache` that    *)
(* executeBlock re-uses for all transactions of the block after             *)
(* cache.Reset().  One action per outcome class of HandleInvokeTransaction  *)
(* (the five costInvalidGas call sites, the uncharged failure, success).    *)
(* The amount of gas a script burns is not modelled: the fee of a failing   *)
(* transaction is any value the payer can pay (C05 does not say more), the  *)
(* trace specification takes it from the log.                               *)
(*                                                                          *)
(* Named deviation switch ResetBeforeTx: TRUE = as coded (cache.Reset() at  *)
(* the top of the loop in executeBlock).  With FALSE the writes of a failed *)
(* transaction stay in the shared cache and are committed by the next       *)
(* successful transaction: TLC then refutes OnlyOwnWrites.                  *)
(***************************************************************************)
EXTENDS Integers, Sequences, FiniteSets, TLC

CONSTANTS Payers,        \* paying accounts
          GOV,           \* the governance contract (fee receiver)
          SINK,          \* an account scripts may send the payer's ONG to
          Keys, Vals,    \* other storage: keys and values
          Prices,        \* gas prices offered
          Limits,        \* gas limits offered
          MinGas,        \* MIN_TRANSACTION_GAS (scaled)
          CodeGasOf,     \* code-length gas per script size class: [SizeClasses -> Nat]
          Fees,          \* fee candidates of a failing execution (model checking only)
          InitOng,       \* [Payers \cup {GOV, SINK} -> Nat]
          ResetBeforeTx, \* deviation switch, TRUE = as coded
          MaxOps

VARIABLES ong,     \* ONG balances as the block overlay shows them
          store,   \* [Keys -> Vals \cup {NoVal}] every other storage entry as the overlay shows it
          cache,   \* the shared transaction cache: [ong: partial balances, store: partial entries], UNK = not written
          nops,
          act      \* history: the transaction and what the ledger reported (state, gas consumed)

vars == <<ong, store, cache, nops, act>>
view == <<ong, store, IF ResetBeforeTx THEN <<>> ELSE cache>>   \* with the reset the old cache content is dead

Accts == Payers \cup {GOV, SINK}
NoVal == "-"
UNK == -1
UNKS == "?"
EmptyCache == [ong |-> [a \in Accts |-> UNK], store |-> [k \in Keys |-> UNKS]]
SizeClasses == DOMAIN CodeGasOf

\* what a read through the transaction cache returns
OngVia(c, a) == IF c.ong[a] # UNK THEN c.ong[a] ELSE ong[a]
StoreVia(c, k) == IF c.store[k] # UNKS THEN c.store[k] ELSE store[k]

Init == /\ ong = InitOng
        /\ store = [k \in Keys |-> NoVal]
        /\ cache = EmptyCache
        /\ nops = 0
        /\ act = [name |-> "Init"]

\* a transaction: payer, gas price, gas limit, script size class, the script's storage writes
\* (w: [Keys -> Vals \cup {UNKS}], UNKS = key not written), the amount `d` of the payer's own ONG it sends to SINK,
\* and how the script ends: "ok" | "fault" (VM fault, failed native call, out of gas)
Txs == [payer : Payers, price : Prices, limit : Limits, size : SizeClasses,
        w : [Keys -> Vals \cup {UNKS}], d : 0..2, end : {"ok", "fault"}]

Step(tx, state, gas, site) == /\ nops < MaxOps /\ nops' = nops + 1
                              /\ act' = [name |-> "Tx", tx |-> tx, state |-> state, gas |-> gas, site |-> site]

Move(o, from, to, amt) == LET o1 == [o EXCEPT ![from] = @ - amt] IN [o1 EXCEPT ![to] = @ + amt]

\* the script runs on the transaction cache c
RunScript(c, tx) ==
    LET p == tx.payer
        b == OngVia(c, p)
        canDrain == tx.d > 0 /\ b >= tx.d
        o1 == IF canDrain THEN [c.ong EXCEPT ![p] = b - tx.d, ![SINK] = OngVia(c, SINK) + tx.d] ELSE c.ong
        s1 == [k \in Keys |-> IF tx.w[k] # UNKS THEN tx.w[k] ELSE c.store[k]]
    IN [cache |-> [ong |-> o1, store |-> s1],
        err |-> tx.end = "fault" \/ (tx.d > 0 /\ ~canDrain)]     \* a transfer the payer cannot cover fails the script

\* costInvalidGas: the fee goes payer -> GOV through a FRESH cache on the overlay; if the overlay balance does not
\* cover it the native transfer fails and nothing is charged or reported
FailCharge(tx, fee, c1, site) ==
    LET p == tx.payer IN
    IF ong[p] >= fee
    THEN /\ ong' = Move(ong, p, GOV, fee) /\ store' = store /\ cache' = c1
         /\ Step(tx, "FAIL", fee, site)
    ELSE /\ UNCHANGED <<ong, store>> /\ cache' = c1
         /\ Step(tx, "FAIL", 0, site)

ExecInvoke(tx, fee) ==
    LET p == tx.payer
        c0 == IF ResetBeforeTx THEN EmptyCache ELSE cache       \* executeBlock: cache.Reset()
        charge == tx.price # 0
        old == OngVia(c0, p)
        codeGas == CodeGasOf[tx.size]
    IN
    IF charge /\ old < MinGas * tx.price THEN FailCharge(tx, old, c0, "minGas")
    ELSE IF charge /\ old < codeGas * tx.price THEN FailCharge(tx, old, c0, "codeLenBalance")
    ELSE IF charge /\ tx.limit < codeGas THEN FailCharge(tx, tx.limit * tx.price, c0, "codeLenLimit")
    ELSE LET r == RunScript(c0, tx)
             c1 == r.cache
         IN IF r.err
            THEN IF charge THEN /\ fee <= old /\ FailCharge(tx, fee, c1, "execError")
                 ELSE /\ fee = 0 /\ UNCHANGED <<ong, store>> /\ cache' = c1 /\ Step(tx, "FAIL", 0, "execErrorFree")
            ELSE IF charge /\ OngVia(c1, p) < fee
                 THEN /\ fee <= old /\ FailCharge(tx, fee, c1, "drained")
                 ELSE \* success: fee payer -> GOV inside the transaction cache, then cache.Commit()
                      LET f == IF charge THEN fee ELSE 0
                          o2 == [a \in Accts |-> IF a = p THEN OngVia(c1, p) - f
                                                ELSE IF a = GOV THEN OngVia(c1, GOV) + f ELSE c1.ong[a]]
                      IN /\ (~charge => fee = 0)
                         /\ ong' = [a \in Accts |-> IF o2[a] # UNK THEN o2[a] ELSE ong[a]]
                         /\ store' = [k \in Keys |-> IF c1.store[k] # UNKS THEN c1.store[k] ELSE store[k]]
                         /\ cache' = EmptyCache
                         /\ Step(tx, "OK", f, "success")

\* a transaction whose script is not described to the model (random scripts): C05 only constrains its failure
ExecOpaque(p, price, state, gas, ong2, store2) ==
    LET tx == [payer |-> p, price |-> price, opaque |-> TRUE] IN
    /\ Step(tx, state, gas, "opaque")
    /\ cache' = EmptyCache
    /\ IF state = "FAIL"
       THEN gas <= ong[p] /\ ong' = Move(ong, p, GOV, gas) /\ store' = store
       ELSE ong' = ong2 /\ store' = store2

Next == \E tx \in Txs, fee \in Fees : ExecInvoke(tx, fee)

Spec == Init /\ [][Next]_vars

(******************************* properties ********************************)
TypeOK == /\ \A a \in Accts : ong[a] \in Nat
          /\ \A k \in Keys : store[k] \in Vals \cup {NoVal}
NonNeg == \A a \in Accts : ong[a] >= 0
IsTx == nops' # nops /\ act'.name = "Tx"
\* C05: a failed transaction leaves every storage entry as it was; the only change is the fee payer -> governance,
\* the fee is at most the payer's balance, and the reported gas equals the fee moved
FailedOnlyFeeStep ==
    IsTx /\ act'.state = "FAIL" =>
        /\ store' = store
        /\ act'.gas <= ong[act'.tx.payer]
        /\ ong' = Move(ong, act'.tx.payer, GOV, act'.gas)
FailedOnlyFee == [][FailedOnlyFeeStep]_vars
\* companion: a successful transaction commits its own writes and nothing else (what a failed predecessor wrote
\* into the shared cache must not surface), and reports the fee it moved
OnlyOwnWritesStep ==
    IsTx /\ act'.state = "OK" /\ act'.site # "opaque" =>
        /\ \A k \in Keys : store'[k] = IF act'.tx.w[k] # UNKS THEN act'.tx.w[k] ELSE store[k]
        /\ LET p == act'.tx.payer
               d == IF act'.tx.d > 0 THEN act'.tx.d ELSE 0
           IN ong' = Move(Move(ong, p, SINK, d), p, GOV, act'.gas)
OnlyOwnWrites == [][OnlyOwnWritesStep]_vars
GasOnlyIfPriced == [][IsTx /\ act'.tx.price = 0 => act'.gas = 0]_vars
TotalOng(o) == LET RECURSIVE S(_)
                   S(X) == IF X = {} THEN 0 ELSE LET x == CHOOSE y \in X : TRUE IN o[x] + S(X \ {x})
               IN S(Accts)
Conserved == TotalOng(ong) = TotalOng(InitOng)

State == [ong |-> ong, store |-> store, cache |-> IF ResetBeforeTx THEN <<>> ELSE cache]
=============================================================================
