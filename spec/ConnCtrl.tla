------------------------------ MODULE ConnCtrl ------------------------------
(***************************************************************************)
(* The peer connection controller of ontio/ontology                        *)
(*   p2pserver/connect_controller/connect_controller.go                    *)
(* One connection attempt = one goroutine (netserver.startNetAccept starts *)
(* one per accepted socket; Connect is called from several goroutines).    *)
(* The controller state is protected by ONE mutex, but AcceptConnect and   *)
(* Connect take it several times: every mutex-protected read / insert is a *)
(* separate critical section.  Actions = critical sections:                *)
(*                                                                         *)
(*   beforeHandshakeCheck   hasBoundAddr            CheckAddr              *)
(*                          isBoundFull             CheckFull              *)
(*                          getInboundCountWithIp   CheckIp     (inbound)  *)
(*   Connect                tryAddConnecting        TryConnecting (outb.)  *)
(*   -- handshake over the network (no lock held) --                       *)
(*   afterHandshakeCheck    getPeer                 AfterCheck             *)
(*   savePeer                                       Save                   *)
(*   Conn.Close             removePeer              Close                  *)
(*                                                                         *)
(* SplitCheck = TRUE : exactly these steps.                                *)
(* SplitCheck = FALSE: the consecutive critical sections between two       *)
(*   points at which a harness can hold the goroutine (before the call,    *)
(*   inside the handshake, after the return) are one step: Check, Save.    *)
(*   This is the granularity whose schedules are forced on the real code.  *)
(* CheckThenAct = TRUE : as coded -- the limits are tested before the      *)
(*   handshake only and Save inserts unconditionally (named deviation).    *)
(* CheckThenAct = FALSE: intended design -- Save re-tests the limits in    *)
(*   the critical section that inserts; then Limits is an invariant.       *)
(*                                                                         *)
(* Address forms.  The controller never sees an IP: it sees the TEXT of a   *)
(* remote address (net.Addr.String(), "host:port" for IPv4 but             *)
(* "[host]:port" for IPv6), keys its records by that text, gets the IP back *)
(* with net.SplitHostPort (no brackets) and builds the announced listen    *)
(* address by string concatenation.  The textual realisation of the        *)
(* abstract remote IPs / ports is a model dimension: the variable plan is  *)
(* chosen in Init from Plans (IPv4, IPv6 loopback/global, hosts and ports  *)
(* that are textual prefixes of each other, both families mixed) and every *)
(* action runs over the texts of that plan; the record sets inb, outb, lsn *)
(* and cing hold these texts.                                              *)
(*                                                                         *)
(* Abstractions: the deferred removeConnecting of Connect is merged into   *)
(* the step that ends the attempt; self-connection detection (OwnAddress)  *)
(* and the reserved-peer filter are not modelled (always pass).            *)
(***************************************************************************)
EXTENDS Naturals, FiniteSets, Sequences, TLC

CONSTANTS Conns,        \* connection attempts (ids)
          Dir,          \* Conns -> {"in","out"}
          IpOf,         \* Conns -> remote IP (abstract)
          PortOf,       \* Conns -> remote port id (inbound: ephemeral port; outbound: dialled port)
          LPortOf,      \* Conns -> id of the listen port announced by the remote peer (version.SyncPort)
          KidOf,        \* Conns -> peer id of the remote node
          Plans,        \* the address plans (names) the remote addresses range over
          PlanTab,      \* plan -> [host : IP -> [fam : {"v4","v6"}, host : text], port : port id -> text]
          ListenAsCoded,\* TRUE: PeerInfo.RemoteListenAddress = host ++ ":" ++ port, no brackets for IPv6 (named deviation
                        \* from net.JoinHostPort; it only matters for the duplicate-address test, not for the limits)
          MaxIn, MaxPerIp, MaxOut,
          CheckThenAct, SplitCheck,
          TrackSnap     \* TRUE: maintain the ghost variable snap (finer state identity for the transition cover)

VARIABLES pc,       \* Conns -> program counter of the attempt
          inb,      \* inoutbounds[INBOUND_INDEX]   (set of addresses)
          outb,     \* inoutbounds[OUTBOUND_INDEX]
          lsn,      \* inboundListenAddress
          cing,     \* connecting
          peers,    \* peer id -> connection currently recorded in the peers map, or "none"
          plan,     \* the address plan of this behaviour (chosen in Init, never changes)
          snap,     \* ghost: what the attempt saw when it passed its checks (size of its bound, inbound count of its IP).
                    \* It does not influence any action; it makes the histories that differ in what was observed at
                    \* check time different states, so that the transition cover replays each of them (an
                    \* implementation that caches a check-time observation until Save is exercised on all of them).
          act       \* history: last action (excluded from the VIEW)

vars == <<pc, inb, outb, lsn, cing, peers, plan, snap, act>>
view == <<pc, inb, outb, lsn, cing, peers, plan, snap>>

Kids == {KidOf[c] : c \in Conns}
IPs == {IpOf[c] : c \in Conns}
IsIn(c) == Dir[c] = "in"

(****************************** address texts ******************************)
\* net.JoinHostPort / TCPAddr.String(): what conn.RemoteAddr().String() returns and what Connect is called with
JoinHostPort(h, p) == IF h.fam = "v6" THEN "[" \o h.host \o "]:" \o p ELSE h.host \o ":" \o p
\* PeerInfo.RemoteListenAddress (recorded in inboundListenAddress by savePeer)
ListenText(h, p) == IF ListenAsCoded THEN h.host \o ":" \o p ELSE JoinHostPort(h, p)
AddrTab == [p \in Plans |-> [c \in Conns |-> JoinHostPort(PlanTab[p].host[IpOf[c]], PlanTab[p].port[PortOf[c]])]]
LsnTab == [p \in Plans |-> [c \in Conns |-> ListenText(PlanTab[p].host[IpOf[c]], PlanTab[p].port[LPortOf[c]])]]
\* common.ParseIPAddr = net.SplitHostPort: the inverse of JoinHostPort on the host part (library contract)
IpTab == [p \in Plans |-> [a \in {AddrTab[p][c] : c \in Conns} |->
             CHOOSE ip \in IPs : \E c \in Conns : AddrTab[p][c] = a /\ IpOf[c] = ip]]
\* the plans are proper: two remote addresses have the same text iff they are the same ip and port, and two IPs the same host text iff equal
ASSUME PlanOK == \A p \in Plans :
                   /\ \A c, d \in Conns : (AddrTab[p][c] = AddrTab[p][d]) <=> (IpOf[c] = IpOf[d] /\ PortOf[c] = PortOf[d])
                   /\ \A x, y \in IPs : (PlanTab[p].host[x].host = PlanTab[p].host[y].host) <=> (x = y)
AddrOf(c) == AddrTab[plan][c]
ListenOf(c) == LsnTab[plan][c]
HostOf(c) == PlanTab[plan].host[IpOf[c]]
IpOfAddr(a) == IpTab[plan][a]

PCs == {"idle", "c1", "c2", "c3", "checked", "hs", "saved", "closed", "rejected"}

Init == /\ pc = [c \in Conns |-> "idle"]
        /\ inb = {} /\ outb = {} /\ lsn = {} /\ cing = {}
        /\ peers = [k \in Kids |-> "none"]
        /\ plan \in Plans
        /\ snap = [c \in Conns |-> [n |-> 0, ip |-> 0]]
        /\ act = [name |-> "Init", c |-> "", res |-> ""]

Did(n, c, r) == act' = [name |-> n, c |-> c, res |-> r]
Go(c, to) == pc' = [pc EXCEPT ![c] = to]

(************************ the individual tests (as coded) ******************)
AddrFree(c) == AddrOf(c) \notin inb /\ AddrOf(c) \notin outb /\ AddrOf(c) \notin lsn      \* !hasBoundAddr
NotFull(c) == IF IsIn(c) THEN Cardinality(inb) < MaxIn ELSE Cardinality(outb) < MaxOut    \* !isBoundFull
FromIp(ip) == Cardinality({a \in inb : IpOfAddr(a) = ip})                                   \* getInboundCountWithIp
IpOk(c) == IsIn(c) => FromIp(IpOf[c]) < MaxPerIp
KidOk(c) == LET o == peers[KidOf[c]] IN o = "none" \/ IpOf[o] = IpOf[c]                    \* checkPeerIdAndIP

\* leaving the attempt: Connect's deferred removeConnecting
Unconnecting(c) == IF IsIn(c) THEN cing ELSE cing \ {AddrOf(c)}

Reject(n, c, r) == /\ Go(c, "rejected") /\ Did(n, c, r)
                   /\ UNCHANGED <<inb, outb, lsn, peers, snap>>
SizeSeen(c) == IF IsIn(c) THEN Cardinality(inb) ELSE Cardinality(outb)
IpSeen(c) == IF IsIn(c) THEN FromIp(IpOf[c]) ELSE 0

(* Environment (TCP): two inbound sockets with the same remote ip:port are never alive together.  A peer may     *)
(* abort a connection and reconnect from the SAME source ip:port while the node still holds (and still records)  *)
(* the dead one; the dead socket cannot complete a handshake any more.  So an inbound attempt starts only when   *)
(* no other inbound attempt with its remote address is between its check and its Save.  A recorded (dead)        *)
(* connection with that address may exist: the controller must then refuse the newcomer (AddrFree), because the  *)
(* inbound record is keyed by the remote address and removePeer of the old connection would delete the shared key*)
MayStart(c) == IsIn(c) => \A d \in Conns \ {c} : (IsIn(d) /\ AddrOf(d) = AddrOf(c)) => pc[d] \in {"idle", "saved", "closed", "rejected"}

(*************************** fine-grained steps ****************************)
CheckAddr(c) == /\ SplitCheck /\ pc[c] = "idle" /\ MayStart(c)
                /\ IF AddrFree(c) THEN Go(c, "c1") /\ Did("CheckAddr", c, "ok") /\ UNCHANGED <<inb, outb, lsn, peers, snap>>
                                  ELSE Reject("CheckAddr", c, "rej-addr")
                /\ UNCHANGED cing

CheckFull(c) == /\ SplitCheck /\ pc[c] = "c1"
                /\ IF NotFull(c) THEN Go(c, "c2") /\ Did("CheckFull", c, "ok") /\ UNCHANGED <<inb, outb, lsn, peers>>
                                      /\ snap' = IF TrackSnap THEN [snap EXCEPT ![c].n = SizeSeen(c)] ELSE snap
                                 ELSE Reject("CheckFull", c, "rej-full")
                /\ UNCHANGED cing

CheckIp(c) == /\ SplitCheck /\ pc[c] = "c2" /\ IsIn(c)
              /\ IF IpOk(c) THEN Go(c, "checked") /\ Did("CheckIp", c, "checked") /\ UNCHANGED <<inb, outb, lsn, peers>>
                                 /\ snap' = IF TrackSnap THEN [snap EXCEPT ![c].ip = IpSeen(c)] ELSE snap
                            ELSE Reject("CheckIp", c, "rej-ip")
              /\ UNCHANGED cing

TryConnecting(c) == /\ SplitCheck /\ pc[c] = "c2" /\ ~IsIn(c)
                    /\ IF AddrOf(c) \notin cing
                       THEN /\ Go(c, "checked") /\ Did("TryConnecting", c, "checked")
                            /\ cing' = cing \cup {AddrOf(c)} /\ UNCHANGED <<inb, outb, lsn, peers, snap>>
                       ELSE Reject("TryConnecting", c, "rej-connecting") /\ UNCHANGED cing

AfterCheck(c) == /\ SplitCheck /\ pc[c] = "checked"
                 /\ IF KidOk(c) THEN Go(c, "hs") /\ Did("AfterCheck", c, "ok") /\ UNCHANGED <<inb, outb, lsn, peers, cing, snap>>
                                ELSE Reject("AfterCheck", c, "rej-kid") /\ cing' = Unconnecting(c)

(****************************** insertion *********************************)
\* the limits as Save would re-test them in the intended design
RoomAtSave(c) == NotFull(c) /\ IpOk(c)

Insert(n, c) ==
    IF ~CheckThenAct /\ ~RoomAtSave(c)
    THEN Reject(n, c, "rej-limit") /\ cing' = Unconnecting(c)
    ELSE /\ Go(c, "saved") /\ Did(n, c, "saved")
         /\ IF IsIn(c) THEN inb' = inb \cup {AddrOf(c)} /\ lsn' = lsn \cup {ListenOf(c)} /\ UNCHANGED outb
                       ELSE outb' = outb \cup {AddrOf(c)} /\ UNCHANGED <<inb, lsn>>
         /\ peers' = [peers EXCEPT ![KidOf[c]] = c]
         /\ cing' = Unconnecting(c)
         /\ UNCHANGED snap

SaveFine(c) == SplitCheck /\ pc[c] = "hs" /\ Insert("Save", c)

(*************************** coarse-grained steps **************************)
\* beforeHandshakeCheck (+ tryAddConnecting) without another goroutine in between
Check(c) == /\ ~SplitCheck /\ pc[c] = "idle" /\ MayStart(c)
            /\ IF ~AddrFree(c) THEN Reject("Check", c, "rej-addr") /\ UNCHANGED cing
               ELSE IF ~NotFull(c) THEN Reject("Check", c, "rej-full") /\ UNCHANGED cing
               ELSE IF ~IpOk(c) THEN Reject("Check", c, "rej-ip") /\ UNCHANGED cing
               ELSE IF ~IsIn(c) /\ AddrOf(c) \in cing THEN Reject("Check", c, "rej-connecting") /\ UNCHANGED cing
               ELSE /\ Go(c, "checked") /\ Did("Check", c, "checked")
                    /\ cing' = IF IsIn(c) THEN cing ELSE cing \cup {AddrOf(c)}
                    /\ snap' = IF TrackSnap THEN [snap EXCEPT ![c] = [n |-> SizeSeen(c), ip |-> IpSeen(c)]] ELSE snap
                    /\ UNCHANGED <<inb, outb, lsn, peers>>

\* handshake completes: afterHandshakeCheck + savePeer (+ removeConnecting)
Save(c) == /\ ~SplitCheck /\ pc[c] = "checked"
           /\ IF KidOk(c) THEN Insert("Save", c)
                          ELSE Reject("Save", c, "rej-kid") /\ cing' = Unconnecting(c)

(***************************** environment *********************************)
\* the handshake fails (remote closes, timeout, dial error)
HandshakeFail(c) == /\ pc[c] \in {"checked"}
                    /\ Reject("HandshakeFail", c, "failed") /\ cing' = Unconnecting(c)

\* Conn.Close -> removePeer
Close(c) == /\ pc[c] = "saved"
            /\ Go(c, "closed") /\ Did("Close", c, "closed")
            /\ IF IsIn(c) THEN inb' = inb \ {AddrOf(c)} /\ lsn' = lsn \ {ListenOf(c)} /\ UNCHANGED outb
                          ELSE outb' = outb \ {AddrOf(c)} /\ UNCHANGED <<inb, lsn>>
            /\ peers' = IF peers[KidOf[c]] = c THEN [peers EXCEPT ![KidOf[c]] = "none"] ELSE peers
            /\ UNCHANGED <<cing, snap>>

Next == /\ \E c \in Conns : \/ CheckAddr(c) \/ CheckFull(c) \/ CheckIp(c) \/ TryConnecting(c) \/ AfterCheck(c) \/ SaveFine(c)
                            \/ Check(c) \/ Save(c) \/ HandshakeFail(c) \/ Close(c)
        /\ UNCHANGED plan

Spec == Init /\ [][Next]_vars

(******************************* properties ********************************)
TypeOK == /\ pc \in [Conns -> PCs]
          /\ plan \in Plans
          /\ peers \in [Kids -> Conns \cup {"none"}]

Est(d) == {c \in Conns : pc[c] = "saved" /\ Dir[c] = d}

\* C36: the established connections respect the three limits
LimIn == Cardinality(Est("in")) <= MaxIn
LimIp == \A ip \in IPs : Cardinality({c \in Est("in") : IpOf[c] = ip}) <= MaxPerIp
LimOut == Cardinality(Est("out")) <= MaxOut
Limits == LimIn /\ LimIp /\ LimOut

\* bookkeeping: the address sets are exactly the established connections (remote addresses are distinct)
Book == /\ inb = {AddrOf(c) : c \in Est("in")}
        /\ outb = {AddrOf(c) : c \in Est("out")}
        /\ cing \subseteq {AddrOf(c) : c \in {d \in Conns : ~IsIn(d) /\ pc[d] \in {"checked", "hs"}}}

\* the quantity the limits are enforced on (the size of the record) is the number of live connections: no live
\* connection is missing from the record (an under-counting record admits more connections than the limit)
LiveCounted == /\ Cardinality(inb) = Cardinality(Est("in"))
               /\ \A ip \in IPs : FromIp(ip) = Cardinality({c \in Est("in") : IpOf[c] = ip})

State == [plan |-> plan, pc |-> pc, inb |-> inb, outb |-> outb, lsn |-> lsn, cing |-> cing, peers |-> peers, snap |-> snap]
=============================================================================
