------------------------------- MODULE KVStack -------------------------------
(***************************************************************************)
(* The layered contract storage of ontio/ontology:                         *)
(*   CacheDB (per-transaction memdb)  ->  OverlayDB (per-block memdb)      *)
(*   -> PersistStore (LevelDB).                                            *)
(* One action per public call / linearization point of                     *)
(*   smartcontract/storage/cachedb.go and core/store/overlaydb/*.go.       *)
(* Keys are byte strings, modelled as sequences of small naturals; the     *)
(* constant KeySeq lists the key universe in ascending byte order and all  *)
(* maps are sequences indexed by the rank of the key in KeySeq.            *)
(* Values: a member of Vals, "" (empty value = tombstone / absent) or "?"  *)
(* (key unknown to a memdb layer).                                         *)
(* Properties: C03 (change hash/write set is a function of ovl), C04       *)
(* (Refines, CommitOK, ResetOK), C44 (MigrateOK, DestroyOK, Tombstoned).   *)
(***************************************************************************)
EXTENDS Naturals, Sequences, FiniteSets, TLC

CONSTANTS KeySeq,      \* ascending sequence of keys (each a sequence of naturals)
          Vals,        \* non-empty values (strings)
          Acts,        \* names of the enabled actions
          MaxOps,      \* bound on the number of operations of a behaviour
          DiskInits,   \* set of initial disk contents (each a sequence over Vals \cup {""})
          Contracts,   \* contract address prefixes (sequences of length 1) for Migrate/Destroy
          Track        \* TRUE iff destroyed-contract tracking is active (config height reached)

VARIABLES disk,    \* persistent store: rank -> value or ""
          ovl,     \* block overlay memdb: rank -> value, "" (tombstone) or "?" (unknown)
          cache,   \* transaction cache memdb: same
          flatO,   \* ghost: the single map seen through the overlay
          flatC,   \* ghost: the single map seen through the cache
          deployed, destroyed,   \* contract records / destroyed markers as seen through the cache
          metaO,   \* the same two sets as seen through the overlay (published by CacheCommit)
          nops,    \* number of operations so far (bound)
          act      \* last action (history variable; excluded from the VIEW)

vars == <<disk, ovl, cache, flatO, flatC, deployed, destroyed, metaO, nops, act>>
view == <<disk, ovl, cache, flatO, flatC, deployed, destroyed, metaO>>

N == Len(KeySeq)
K == 1..N
TOMB == ""
UNK == "?"

HasPrefix(k, p) == Len(p) <= Len(k) /\ SubSeq(k, 1, Len(p)) = p
RankOf(k) == CHOOSE i \in K : KeySeq[i] = k
InUniverse(k) == \E i \in K : KeySeq[i] = k

\* lexicographic order on sequences of naturals
RECURSIVE LexLess(_, _)
LexLess(a, b) == IF a = <<>> THEN b # <<>>
                 ELSE IF b = <<>> THEN FALSE
                 ELSE IF Head(a) # Head(b) THEN Head(a) < Head(b)
                 ELSE LexLess(Tail(a), Tail(b))
ASSUME \A i \in 1..(N-1) : LexLess(KeySeq[i], KeySeq[i+1])

Layer(top, below) == [i \in K |-> IF top[i] = UNK THEN below[i] ELSE top[i]]
ReadOvl   == Layer(ovl, disk)                 \* OverlayDB.Get for every key
ReadCache == Layer(cache, ReadOvl)            \* CacheDB.Get for every key
CleanCache == \A i \in K : cache[i] = UNK
AllUnk == [i \in K |-> UNK]

\* the prefix iterator a single ordered map would give: live keys with the prefix, ascending
IterOf(m, p) == SelectSeq([i \in K |-> i], LAMBDA i : HasPrefix(KeySeq[i], p) /\ m[i] # TOMB)

\* JoinIter as coded: merge of the sorted memdb range and the backend iterator, memory wins on
\* equal keys, entries whose merged value is empty are skipped.  mem: rank -> value/""/"?",
\* back: sequence of ranks (already merged lower layers) with values backv.
JoinOf(mem, backv, p) ==
    SelectSeq([i \in K |-> i],
              LAMBDA i : /\ HasPrefix(KeySeq[i], p)
                         /\ IF mem[i] # UNK THEN mem[i] # TOMB ELSE backv[i] # TOMB)

Init == /\ disk \in DiskInits
        /\ ovl = AllUnk /\ cache = AllUnk
        /\ flatO = disk /\ flatC = disk
        /\ deployed = {} /\ destroyed = {} /\ metaO = <<{}, {}>>
        /\ nops = 0
        /\ act = [name |-> "Init"]

Step(a) == nops < MaxOps /\ a.name \in Acts /\ nops' = nops + 1 /\ act' = a

CachePut(i, v) == /\ Step([name |-> "CachePut", k |-> i, v |-> v])
                  /\ cache' = [cache EXCEPT ![i] = v]
                  /\ flatC' = [flatC EXCEPT ![i] = v]
                  /\ UNCHANGED <<disk, ovl, flatO, deployed, destroyed, metaO>>

CacheDelete(i) == /\ Step([name |-> "CacheDelete", k |-> i])
                  /\ cache' = [cache EXCEPT ![i] = TOMB]
                  /\ flatC' = [flatC EXCEPT ![i] = TOMB]
                  /\ UNCHANGED <<disk, ovl, flatO, deployed, destroyed, metaO>>

\* CacheDB.Commit: replay the memdb into the overlay (empty value => Delete), then reset
CacheCommit == /\ Step([name |-> "CacheCommit"])
               /\ ovl' = [i \in K |-> IF cache[i] = UNK THEN ovl[i] ELSE cache[i]]
               /\ cache' = AllUnk
               /\ flatO' = flatC
               /\ metaO' = <<deployed, destroyed>>
               /\ UNCHANGED <<disk, flatC, deployed, destroyed>>

CacheReset == /\ Step([name |-> "CacheReset"])
              /\ cache' = AllUnk
              /\ flatC' = flatO
              /\ deployed' = metaO[1] /\ destroyed' = metaO[2]
              /\ UNCHANGED <<disk, ovl, flatO, metaO>>

\* direct overlay writes (the ledger does them only with a clean transaction cache)
OvlPut(i, v) == /\ CleanCache /\ Step([name |-> "OvlPut", k |-> i, v |-> v])
                /\ ovl' = [ovl EXCEPT ![i] = v]
                /\ flatO' = [flatO EXCEPT ![i] = v] /\ flatC' = [flatC EXCEPT ![i] = v]
                /\ UNCHANGED <<disk, cache, deployed, destroyed, metaO>>

OvlDelete(i) == /\ CleanCache /\ Step([name |-> "OvlDelete", k |-> i])
                /\ ovl' = [ovl EXCEPT ![i] = TOMB]
                /\ flatO' = [flatO EXCEPT ![i] = TOMB] /\ flatC' = [flatC EXCEPT ![i] = TOMB]
                /\ UNCHANGED <<disk, cache, deployed, destroyed, metaO>>

\* OverlayDB.CommitTo + store.CommitTo + fresh overlay (what submitBlock does per block)
OvlCommit == /\ CleanCache /\ metaO = <<deployed, destroyed>> /\ Step([name |-> "OvlCommit"])
             /\ disk' = [i \in K |-> IF ovl[i] = UNK THEN disk[i] ELSE ovl[i]]
             /\ ovl' = AllUnk
             /\ UNCHANGED <<cache, flatO, flatC, deployed, destroyed, metaO>>

(******************************* contracts (C44) ***************************)
\* storage keys of contract c are the keys having c as prefix; Rekey moves a key to contract d
Rekey(k, c, d) == d \o SubSeq(k, Len(c) + 1, Len(k))
Under(c) == {i \in K : HasPrefix(KeySeq[i], c)}

\* CacheDB.MigrateContractStorage(old, new): delete contract record (+destroyed marker),
\* iterate old prefix through the cache, Put under new, Delete old.
Migrate(c, d) == /\ c # d /\ c \in deployed /\ d \notin deployed /\ d \notin destroyed
                 /\ Step([name |-> "Migrate", c |-> c, d |-> d])
                 /\ LET live == {i \in Under(c) : flatC[i] # TOMB}
                        dst(i) == RankOf(Rekey(KeySeq[i], c, d))
                        srcOf(j) == CHOOSE i \in live : dst(i) = j
                        moved == {dst(i) : i \in live}
                    IN /\ \A i \in live : InUniverse(Rekey(KeySeq[i], c, d))
                       /\ cache' = [j \in K |-> IF j \in moved THEN flatC[srcOf(j)]
                                                ELSE IF j \in live THEN TOMB ELSE cache[j]]
                       /\ flatC' = [j \in K |-> IF j \in moved THEN flatC[srcOf(j)]
                                                ELSE IF j \in live THEN TOMB ELSE flatC[j]]
                 /\ deployed' = (deployed \ {c}) \cup {d}
                 /\ destroyed' = IF Track THEN destroyed \cup {c} ELSE destroyed
                 /\ UNCHANGED <<disk, ovl, flatO, metaO>>

\* CacheDB.CleanContractStorage(addr): delete record, mark destroyed, delete every key under addr
Destroy(c) == /\ c \in deployed
              /\ Step([name |-> "Destroy", c |-> c])
              /\ LET live == {i \in Under(c) : flatC[i] # TOMB}
                 IN /\ cache' = [j \in K |-> IF j \in live THEN TOMB ELSE cache[j]]
                    /\ flatC' = [j \in K |-> IF j \in live THEN TOMB ELSE flatC[j]]
              /\ deployed' = deployed \ {c}
              /\ destroyed' = IF Track THEN destroyed \cup {c} ELSE destroyed
              /\ UNCHANGED <<disk, ovl, flatO, metaO>>

\* HandleDeployTransaction / Contract.Create: refused for a deployed or destroyed address
Deploy(c) == /\ c \notin deployed /\ c \notin destroyed
             /\ Step([name |-> "Deploy", c |-> c])
             /\ deployed' = deployed \cup {c}
             /\ UNCHANGED <<disk, ovl, cache, flatO, flatC, destroyed, metaO>>

\* a deploy attempt the code must refuse (kept as an action so that the replay executes it)
DeployRefused(c) == /\ (c \in deployed \/ c \in destroyed)
                    /\ Step([name |-> "DeployRefused", c |-> c])
                    /\ UNCHANGED <<disk, ovl, cache, flatO, flatC, deployed, destroyed, metaO>>

\* Storage.Put by contract c (only a deployed contract executes)
ContractPut(c, i, v) == /\ c \in deployed /\ i \in Under(c)
                        /\ Step([name |-> "ContractPut", c |-> c, k |-> i, v |-> v])
                        /\ cache' = [cache EXCEPT ![i] = v]
                        /\ flatC' = [flatC EXCEPT ![i] = v]
                        /\ UNCHANGED <<disk, ovl, flatO, deployed, destroyed, metaO>>

\* native global-param addDestroyedContract (operator path): CacheDB.SetContractDestroyed WITHOUT deleting the
\* contract record or its storage.  CacheDB.GetContract reports such an address as destroyed and returns no
\* contract, so from then on it is neither callable nor deployable; its storage stays where it is.
MarkDestroyed(c) == /\ Track /\ c \notin destroyed
                    /\ Step([name |-> "MarkDestroyed", c |-> c])
                    /\ destroyed' = destroyed \cup {c}
                    /\ deployed' = deployed \ {c}
                    /\ UNCHANGED <<disk, ovl, cache, flatO, flatC, metaO>>

\* a storage write attempted in the name of an address that is not a live contract (never deployed, destroyed,
\* migrated away, listed by the operator): the code must refuse it (kept as an action so that the replay executes it)
PutRefused(c, i) == /\ c \notin deployed /\ i \in Under(c)
                    /\ Step([name |-> "PutRefused", c |-> c, k |-> i, v |-> CHOOSE v \in Vals : TRUE])
                    /\ UNCHANGED <<disk, ovl, cache, flatO, flatC, deployed, destroyed, metaO>>

Next == \/ \E i \in K, v \in Vals : CachePut(i, v) \/ OvlPut(i, v)
        \/ \E i \in K : CacheDelete(i) \/ OvlDelete(i)
        \/ CacheCommit \/ CacheReset \/ OvlCommit
        \/ \E c \in Contracts, d \in Contracts : Migrate(c, d)
        \/ \E c \in Contracts : Destroy(c) \/ Deploy(c) \/ DeployRefused(c) \/ MarkDestroyed(c)
        \/ \E c \in Contracts, i \in K : PutRefused(c, i)
        \/ \E c \in Contracts, i \in K, v \in Vals : ContractPut(c, i, v)

Spec == Init /\ [][Next]_vars

(******************************** properties *******************************)
TypeOK == /\ \A i \in K : disk[i] \in Vals \cup {TOMB}
          /\ \A i \in K : ovl[i] \in Vals \cup {TOMB, UNK} /\ cache[i] \in Vals \cup {TOMB, UNK}

\* C04: layered reads = the single map, at both levels
Refines == ReadCache = flatC /\ ReadOvl = flatO
\* C04: prefix iteration through the join iterators = iteration of the single map
Prefixes == UNION {{SubSeq(KeySeq[i], 1, n) : n \in 0..Len(KeySeq[i])} : i \in K}
IterOK == \A p \in Prefixes :
             /\ JoinOf(ovl, disk, p) = IterOf(flatO, p)
             /\ JoinOf(cache, ReadOvl, p) = IterOf(flatC, p)
\* C04: commit publishes exactly the cache's writes, reset discards them
CommitOK == [][act'.name = "CacheCommit" /\ nops' # nops =>
                 /\ flatO' = flatC /\ flatC' = flatC
                 /\ \A i \in K : cache[i] = UNK => ovl'[i] = ovl[i]]_vars
ResetOK == [][act'.name = "CacheReset" /\ nops' # nops => flatC' = flatO /\ ovl' = ovl /\ disk' = disk]_vars
\* C04/C01: committing the overlay never changes what is read
OvlCommitOK == [][act'.name = "OvlCommit" /\ nops' # nops => flatO' = flatO /\ flatC' = flatC]_vars

\* C44
MigrateOK == [][act'.name = "Migrate" /\ nops' # nops =>
                  LET c == act'.c  d == act'.d IN
                  /\ \A i \in Under(c) : flatC'[i] = TOMB
                  /\ \A i \in Under(c) : flatC[i] # TOMB => flatC'[RankOf(Rekey(KeySeq[i], c, d))] = flatC[i]]_vars
DestroyOK == [][act'.name = "Destroy" /\ nops' # nops => \A i \in Under(act'.c) : flatC'[i] = TOMB]_vars
\* a destroyed marker published to the block overlay is permanent, and such an address is never deployed again
\* (an unpublished marker disappears with CacheReset: the destroying transaction failed)
Tombstoned == [][\A c \in metaO[2] : c \in metaO'[2] /\ c \in destroyed' /\ c \notin deployed']_vars
NoOrphan == \A c \in destroyed : Track => c \notin deployed
\* an address carrying the destroyed marker is dead whatever record or storage is still under it
MarkedDead == [][act'.name = "MarkDestroyed" /\ nops' # nops =>
                   act'.c \in destroyed' /\ act'.c \notin deployed' /\ flatC' = flatC]_vars
\* refused calls change nothing
RefusedNoop == [][act'.name \in {"PutRefused", "DeployRefused"} /\ nops' # nops =>
                    flatC' = flatC /\ flatO' = flatO /\ deployed' = deployed /\ destroyed' = destroyed]_vars

\* state projection exported on edges (maps as arrays in KeySeq order)
State == [disk |-> disk, ovl |-> ovl, cache |-> cache, flatO |-> flatO, flatC |-> flatC,
          deployed |-> deployed, destroyed |-> destroyed, metaO |-> metaO]
=============================================================================
