SPECIFICATION Spec
CONSTANTS
  Modes <- BothModes
  Apis <- BothApis
  ContractView = "cache"
  NilOnAbsent <- DevGetContract
VIEW view
INVARIANTS TypeOK Total
CHECK_DEADLOCK FALSE
