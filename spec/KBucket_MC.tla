----------------------------- MODULE KBucket_MC -----------------------------
(* Model-checking instance of KBucket: 6-bit ids sharing long prefixes with the local id. *)
EXTENDS KBucket, Json

Local6 == <<1,0,1,1,0,1>>
Ids6 == << <<0,0,0,0,0,0>>,   \* 1  cpl 0
           <<1,0,1,0,0,1>>,   \* 2  cpl 3   (third id of that class: capacity rejections)
           <<1,0,1,0,1,0>>,   \* 3  cpl 3   (fourth id of that class: rejections with K = 3; target only with K = 2)
           <<1,0,0,1,0,1>>,   \* 4  cpl 2   (target only)
           <<1,0,1,0,0,0>>,   \* 5  cpl 3
           <<1,0,1,0,1,1>>,   \* 6  cpl 3
           <<1,0,1,1,1,0>>,   \* 7  cpl 4
           <<1,0,1,1,0,0>>,   \* 8  cpl 5
           <<1,0,1,1,0,1>>,   \* 9  cpl 6 = the local id itself
           <<1,0,1,1,1,1>> >> \* 10 cpl 4
Peers8 == {1, 2, 5, 6, 7, 8, 9, 10}
Peers8k3 == {1, 2, 3, 5, 6, 7, 8, 9}
Peers10 == 1..10
\* peers 2 (capacity class cpl 3), 7 (cpl 4) and 8 (cpl 5, moves when the table unfolds) re-announce from a second address
Addrs2 == [p \in 1..10 |-> IF p \in {2, 7, 8} THEN {1, 2} ELSE {1}]
TargetSeq == <<1, 2, 3, 4, 5, 6, 7, 8, 9, 10>>
CountSeq == <<1, 2, 3, 5>>
Targets10 == {TargetSeq[i] : i \in DOMAIN TargetSeq}
Counts4 == {CountSeq[i] : i \in DOMAIN CountSeq}

\* the State record is the VIEW (buckets, res); NearestPeers edges are self-loops carrying the answer in act.out
State == [buckets |-> buckets, addr |-> addr, res |-> res]
Edge == PrintT(<<"EDGE", ToJson([from |-> State, act |-> act', to |-> State'])>>)
InitOut == (TLCGet("level") = 1) => PrintT(<<"INIT", ToJson(State)>>)
\* behaviours for the simulation mode: one ROW per finished behaviour is not needed, edges are printed as they are taken
=============================================================================
