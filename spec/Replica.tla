------------------------------- MODULE Replica -------------------------------
(***************************************************************************)
(* Two nodes execute the same blocks (C02).                                 *)
(*   A  a consensus member: every transaction passed VerifyTransaction, so  *)
(*      Transaction.SignedAddr holds the addresses the validator computed   *)
(*      (AddressFromPubKey / AddressFromMultiPubKeys: canonical script)      *)
(*   B  a syncing / restarted node: it decodes Block.ToArray() bytes;        *)
(*      GetSignatureAddresses derives SignedAddr lazily as the hash of the  *)
(*      RAW verification script of each signature.                          *)
(* A transaction is [kind, sv]: sv names the signer variant (key type and   *)
(* encoding of the verification script); its payer is the address the       *)
(* validator computes.  The effect of a transaction depends on              *)
(* CheckWitness(payer) (smartcontract.checkAccountAddress reads the signer  *)
(* addresses) for the kinds in NeedsWitness.                                *)
(* Actions: Seal(b, p) -- A validates and seals block b and both nodes      *)
(* execute it.  A is a consensus member (ExecuteBlock + SubmitBlock of its  *)
(* own block); B ingests the block through the path p chosen per block:     *)
(*   "exec-submit"       ExecuteBlock + SubmitBlock (another member)        *)
(*   "addblock"          AddBlock only (block without a preceding header)   *)
(*   "headers-addblock"  AddHeaders, then AddBlock (p2p header-first sync): *)
(*                       the only path on which the node's header index     *)
(*                       knows the block while it is being executed.        *)
(* Transactions of the kinds in EnvKinds read the execution environment     *)
(* (current block hash, height, timestamp, transaction hash, header) and    *)
(* publish what they read, so every environment field becomes part of the   *)
(* digest.  By design the environment is a function of the BLOCK only.      *)
(* The digest of a node is the sequence of per-transaction outcomes (it     *)
(* stands for state root, write set, events).                               *)
(* Property: Agreement.                                                     *)
(***************************************************************************)
EXTENDS Naturals, Sequences, FiniteSets, TLC

CONSTANTS Kinds,          \* transaction kinds
          NeedsWitness,   \* the kinds whose effect depends on CheckWitness(payer)
          Variants,       \* signer variants
          SameAddr,       \* variants whose raw-script hash equals the validator's address (PROBED from the code)
          FeeKinds,       \* the kinds whose fee depends on the gas price table (global_params, refreshed per block)
          ParamKind,      \* the kind that raises a gas price through the global_params contract (effective from the next block)
          MaxParam,       \* bound on the number of parameter changes
          MaxRestart,     \* bound on the number of restarts of node B
          StaleGasTable,  \* named deviation: TRUE = the per-block gas table is whatever the PROCESS held before the block
                          \* (process history); FALSE = design: it is reloaded from the committed state at the block's start
          MaxTx,          \* transactions per block
          MaxBlocks,
          EnvKinds,       \* the kinds whose effect is what they read from the execution environment of their block
          Paths,          \* the ingestion paths node B may take for a block (node A: always ExecuteBlock + SubmitBlock)
          EnvFromIndex,   \* named deviation: TRUE = the environment (current block hash) is looked up in the NODE's header
                          \* index, which knows the block being executed only on the header-first path; FALSE = design and
                          \* code as is: it is taken from the block being executed
          LazyFromRaw     \* named deviation: TRUE = code as is (B hashes the raw script); FALSE = design intent (B derives
                          \* the addresses like the validator does)

VARIABLES digestA, digestB,
          param,      \* committed state: the gas price level set through global_params (0 = genesis value)
          gA, gB,     \* process-global neovm.GAS_TABLE of each node's process (0 = compiled-in defaults)
          nrestart,   \* restarts of node B so far
          act
vars == <<digestA, digestB, param, gA, gB, nrestart, act>>
view == <<digestA, digestB, param, gA, gB, nrestart>>

Tx == {t \in [kind : Kinds, sv : Variants] : t.kind \in EnvKinds \cup {ParamKind} => t.sv = CHOOSE v \in Variants : TRUE}
RECURSIVE SeqsUpTo(_, _)
SeqsUpTo(T, n) == IF n = 0 THEN {<<>>} ELSE LET P == SeqsUpTo(T, n - 1) IN P \cup {Append(s, t) : s \in {q \in P : Len(q) = n - 1}, t \in T}
BlocksOf == SeqsUpTo(Tx, MaxTx) \ {<<>>}

\* the witness each node sees for the payer of tx
WitnessA(tx) == TRUE
WitnessB(tx) == (tx.sv \in SameAddr) \/ ~LazyFromRaw
\* lvl: the gas price level of the table the node executes the block with
\* env: 1 = the environment of the block itself, 0 = what a header index that does not know the block answers
HeaderKnown(p) == p = "headers-addblock"
EnvSeen(p) == IF EnvFromIndex /\ ~HeaderKnown(p) THEN 0 ELSE 1
Outcome(tx, w, lvl, env) == IF tx.kind \in NeedsWitness /\ ~w THEN <<"failed", 0>>
                       ELSE IF tx.kind \in EnvKinds THEN <<"env", env>>
                       ELSE IF tx.kind \in FeeKinds THEN <<"applied", lvl>> ELSE <<"applied", 0>>
LevelOf(g) == IF StaleGasTable THEN g ELSE param       \* executeBlock: refreshGlobalParam, then the per-block snapshot
ExecA(b) == [i \in 1..Len(b) |-> Outcome(b[i], WitnessA(b[i]), LevelOf(gA), EnvSeen("exec-submit"))]
ExecB(b, p) == [i \in 1..Len(b) |-> Outcome(b[i], WitnessB(b[i]), LevelOf(gB), EnvSeen(p))]
HasParam(b) == \E i \in 1..Len(b) : b[i].kind = ParamKind

Init == /\ digestA = <<>> /\ digestB = <<>> /\ param = 0 /\ gA = 0 /\ gB = 0 /\ nrestart = 0
        /\ act = [name |-> "Init"]
Seal(b, p) ==
           /\ Len(digestA) < MaxBlocks
           /\ digestA = digestB            \* a diverged syncing node refuses the next block (state root mismatch)
           /\ digestA' = Append(digestA, ExecA(b))
           /\ digestB' = Append(digestB, ExecB(b, p))
           /\ (HasParam(b) => param < MaxParam)
           /\ param' = IF HasParam(b) THEN param + 1 ELSE param        \* committed with the block, used from the next one
           /\ gA' = param /\ gB' = param                                \* refreshGlobalParam loaded the committed values
           /\ UNCHANGED nrestart
           /\ act' = [name |-> "Seal", block |-> b, path |-> p, agree |-> (ExecA(b) = ExecB(b, p)), outA |-> ExecA(b), outB |-> ExecB(b, p)]
\* node B's process exits and a fresh process reopens its data directory: process globals are back to the defaults
RestartB == /\ nrestart < MaxRestart /\ Len(digestA) >= 1 /\ Len(digestA) < MaxBlocks /\ digestA = digestB
            /\ gB' = 0 /\ nrestart' = nrestart + 1
            /\ UNCHANGED <<digestA, digestB, param, gA>>
            /\ act' = [name |-> "RestartB"]
Next == (\E b \in BlocksOf, p \in Paths : Seal(b, p)) \/ RestartB
Spec == Init /\ [][Next]_vars

Agreement == digestA = digestB
=============================================================================
