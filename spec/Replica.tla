------------------------------- MODULE Replica -------------------------------
(***************************************************************************)
(* Two nodes execute the same blocks (C02).                                 *)
(*   A  a consensus member: every transaction passed VerifyTransaction, so  *)
(*      Transaction.SignedAddr holds the addresses the validator computed   *)
(*      (AddressFromPubKey / AddressFromMultiPubKeys: canonical script)      *)
(*   B  a syncing / restarted node: it decodes Block.ToArray() bytes;        *)
(*      GetSignatureAddresses derives SignedAddr lazily as the hash of the  *)
(*      RAW verification script of each signature.                          *)
(* A transaction is [kind, sv]: sv names the signer variant (key type and   *)
(* encoding of the verification script); its payer is the address the       *)
(* validator computes.  The effect of a transaction depends on              *)
(* CheckWitness(payer) (smartcontract.checkAccountAddress reads the signer  *)
(* addresses) for the kinds in NeedsWitness.                                *)
(* Actions: Seal(b) -- A validates and seals block b and both nodes execute *)
(* it (ExecuteBlock / AddBlock).  The digest of a node is the sequence of   *)
(* per-transaction outcomes (it stands for state root, write set, events).  *)
(* Property: Agreement.                                                     *)
(***************************************************************************)
EXTENDS Naturals, Sequences, FiniteSets, TLC

CONSTANTS Kinds,          \* transaction kinds
          NeedsWitness,   \* the kinds whose effect depends on CheckWitness(payer)
          Variants,       \* signer variants
          SameAddr,       \* variants whose raw-script hash equals the validator's address (PROBED from the code)
          MaxTx,          \* transactions per block
          MaxBlocks,
          LazyFromRaw     \* named deviation: TRUE = code as is (B hashes the raw script); FALSE = design intent (B derives
                          \* the addresses like the validator does)

VARIABLES digestA, digestB, act
vars == <<digestA, digestB, act>>
view == <<digestA, digestB>>

Tx == [kind : Kinds, sv : Variants]
RECURSIVE SeqsUpTo(_, _)
SeqsUpTo(T, n) == IF n = 0 THEN {<<>>} ELSE LET P == SeqsUpTo(T, n - 1) IN P \cup {Append(s, t) : s \in {q \in P : Len(q) = n - 1}, t \in T}
BlocksOf == SeqsUpTo(Tx, MaxTx) \ {<<>>}

\* the witness each node sees for the payer of tx
WitnessA(tx) == TRUE
WitnessB(tx) == (tx.sv \in SameAddr) \/ ~LazyFromRaw
Outcome(tx, w) == IF tx.kind \in NeedsWitness /\ ~w THEN "failed" ELSE "applied"
ExecA(b) == [i \in 1..Len(b) |-> Outcome(b[i], WitnessA(b[i]))]
ExecB(b) == [i \in 1..Len(b) |-> Outcome(b[i], WitnessB(b[i]))]

Init == digestA = <<>> /\ digestB = <<>> /\ act = [name |-> "Init"]
Seal(b) == /\ Len(digestA) < MaxBlocks
           /\ digestA = digestB            \* a diverged syncing node refuses the next block (state root mismatch)
           /\ digestA' = Append(digestA, ExecA(b))
           /\ digestB' = Append(digestB, ExecB(b))
           /\ act' = [name |-> "Seal", block |-> b, agree |-> (ExecA(b) = ExecB(b)), outA |-> ExecA(b), outB |-> ExecB(b)]
Next == \E b \in BlocksOf : Seal(b)
Spec == Init /\ [][Next]_vars

Agreement == digestA = digestB
=============================================================================
