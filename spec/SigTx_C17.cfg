SPECIFICATION SpecC17
CONSTANTS
  TxSpace <- Small16
  EthKeys <- Eth3
  MaskByPosition = FALSE
  RawScriptFallback = FALSE
  MutClasses <- MutNone
INVARIANTS SameSigners Sound
ACTION_CONSTRAINT Edge
CHECK_DEADLOCK FALSE
