SPECIFICATION SpecC17
CONSTANTS
  TxSpace <- Small16
  EthKeys <- Eth3
  MaskByPosition = FALSE
  RawScriptFallback = FALSE
  MutClasses <- MutNone
  PreOps <- PreNone
  SkipIfSignedAddr = FALSE
  AddrBySigCount = FALSE
INVARIANTS SameSigners Sound SignersAreScriptAccounts
ACTION_CONSTRAINT Edge
CHECK_DEADLOCK FALSE
