SPECIFICATION SpecC17
CONSTANTS
  TxSpace <- Small16
  EthKeys <- Eth3
  MaskByPosition = FALSE
  RawScriptFallback = FALSE
  MutClasses <- MutNone
  PreOps <- PreNone
  SkipIfSignedAddr = FALSE
INVARIANTS SameSigners Sound
ACTION_CONSTRAINT Edge
CHECK_DEADLOCK FALSE
