SPECIFICATION Spec
INVARIANTS ClosedFormsIntersect TableAdmissible
CONSTRAINT RowOut
CHECK_DEADLOCK FALSE
