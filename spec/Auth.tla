-------------------------------- MODULE Auth --------------------------------
(***************************************************************************)
(* The native auth contract of ontio/ontology                               *)
(* (smartcontract/service/native/auth/auth.go) for ONE application          *)
(* contract.  One action per contract method.  The state variables are the  *)
(* contract's storage items:                                                *)
(*   admin   PreAdmin          the admin ONT ID ("none" = not set)          *)
(*   funcs   PreRoleFunc       role -> set of function names                *)
(*   tokens  PreRoleToken      ONT ID -> roles held permanently (level 2,   *)
(*                             expire = year 2100)                           *)
(*   deleg   PreDelegateStatus ONT ID -> role -> [root, expire, level]      *)
(*   now     block time (native.Time), advanced by Tick                     *)
(* ghost: assigned = the (id, role) pairs an admin-authorised                *)
(*   assignOntIDsToRole call that answered TRUE has named.                   *)
(* Identities prove control of a key through the ontid contract's           *)
(* verifySignature(id, keyNo): every identity has key 1 (valid), key 2      *)
(* (revoked), no key 3; the transaction's signer set is a set of            *)
(* <<id, keyNo>> pairs.                                                     *)
(* Results: "true" / "false" (BYTE_TRUE / BYTE_FALSE) / "err" (the native   *)
(* call returns an error and the transaction's writes are dropped).         *)
(* Named deviation (code as found; FALSE = design):                          *)
(*   AssignSkipsDelegated  assignOntIDsToRole silently skips a person who    *)
(*                         already has other tokens and currently holds the  *)
(*                         role through an unexpired delegation              *)
(* Properties (C41): Exact, DelegByHolder, AdminAuth, AdminChange, DelegAuth *)
(***************************************************************************)
EXTENDS Naturals, FiniteSets, TLC

CONSTANTS Ids, Roles, Fns,
          MaxT,            \* Tick is enabled while now < MaxT
          Periods, Levels, \* delegate parameters
          FnSets, PersonSets,
          Modes,           \* ways of signing an attempt (see KeyNo/Signers)
          MaxOps, Acts,
          AssignSkipsDelegated,
          InitStates       \* set of initial states (records), see Auth_MC

VARIABLES admin, funcs, tokens, deleg, now, assigned, nops, act
vars == <<admin, funcs, tokens, deleg, now, assigned, nops, act>>
view == <<admin, funcs, tokens, deleg, now, assigned>>

NoId == "none"
NoDeleg == [root |-> NoId, expire |-> 0, level |-> 0]
Future == 1000000            \* the permanent token's expiry (year 2100), beyond every model time

\* ---------------------------------------------------------------- proving control of a key
Other(x) == CHOOSE y \in Ids : y # x
KeyNo(m) == CASE m = "revoked" -> 2 [] m = "noindex" -> 3 [] OTHER -> 1
Signers(m, x) == CASE m = "own" -> {<<x, 1>>}
                   [] m = "ownplus" -> {<<x, 1>>, <<Other(x), 1>>}
                   [] m = "nosig" -> {}
                   [] m = "other" -> {<<Other(x), 1>>}
                   [] m = "revoked" -> {<<x, 2>>}
                   [] m = "noindex" -> {<<x, 1>>}
\* ontid.verifySignature(id, keyNo): key exists, is not revoked, and its address witnessed the transaction
SigOK(x, k, S) == x \in Ids /\ k = 1 /\ <<x, 1>> \in S

\* ---------------------------------------------------------------- token lookup
\* getAuthToken / hasRole: permanent token, else delegation with native.Time < expireTime
Delegated(p, r) == deleg[p][r] # NoDeleg
HasRoleNow(p, r) == r \in tokens[p] \/ (Delegated(p, r) /\ now < deleg[p][r].expire)
LevelOf(p, r) == IF r \in tokens[p] THEN 2 ELSE IF HasRoleNow(p, r) THEN deleg[p][r].level ELSE 0
ExpireOf(p, r) == IF r \in tokens[p] THEN Future ELSE deleg[p][r].expire
\* verifyToken skips an entry only when expireTime < native.Time
Unexpired(p, r) == Delegated(p, r) /\ now <= deleg[p][r].expire
CodeHolds(c, f) == \E r \in Roles : f \in funcs[r] /\ (r \in tokens[c] \/ Unexpired(c, r))
VerifyOK(c, f, k, S) == SigOK(c, k, S) /\ CodeHolds(c, f)
\* the property's right-hand side: holds directly (assigned by the admin) or through an unexpired delegation
Should(c, f) == \E r \in Roles : f \in funcs[r] /\ (<<c, r>> \in assigned \/ Unexpired(c, r))

Init == /\ \E s \in InitStates : /\ admin = s.admin /\ funcs = s.funcs /\ tokens = s.tokens
                                 /\ deleg = s.deleg /\ now = s.now /\ assigned = s.assigned
        /\ nops = 0 /\ act = [name |-> "Init"]

Step(a) == nops < MaxOps /\ a.name \in Acts /\ nops' = nops + 1 /\ act' = a
Same == UNCHANGED <<admin, funcs, tokens, deleg, now, assigned>>

\* initContractAdmin(adminOntID), called by the application contract itself
InitAdmin(x) ==
    LET a == [name |-> "InitAdmin", id |-> x, k |-> 1, signers |-> {}] IN
    IF admin # NoId THEN Step(a @@ [res |-> "false"]) /\ Same
    ELSE Step(a @@ [res |-> "true"]) /\ admin' = x /\ UNCHANGED <<funcs, tokens, deleg, now, assigned>>

\* transfer(contract, newAdminOntID, keyNo)
Transfer(x, k, S) ==
    LET a == [name |-> "Transfer", id |-> x, k |-> k, signers |-> S] IN
    IF admin = NoId THEN Step(a @@ [res |-> "false"]) /\ Same
    ELSE IF ~SigOK(admin, k, S) THEN Step(a @@ [res |-> "err"]) /\ Same
    ELSE Step(a @@ [res |-> "true"]) /\ admin' = x /\ UNCHANGED <<funcs, tokens, deleg, now, assigned>>

AdminGate(x, k, S) == IF admin = NoId THEN "err" ELSE IF x # admin THEN "false"
                      ELSE IF ~SigOK(x, k, S) THEN "err" ELSE "true"

\* assignFuncsToRole(contract, adminOntID, role, funcNames, keyNo)
AssignFuncs(x, r, fs, k, S) ==
    LET a == [name |-> "AssignFuncs", id |-> x, role |-> r, fns |-> fs, k |-> k, signers |-> S]
        g == AdminGate(x, k, S) IN
    IF g # "true" THEN Step(a @@ [res |-> g]) /\ Same
    ELSE /\ Step(a @@ [res |-> "true"])
         /\ funcs' = [funcs EXCEPT ![r] = @ \cup fs]
         /\ UNCHANGED <<admin, tokens, deleg, now, assigned>>

\* assignOntIDsToRole(contract, adminOntID, role, persons, keyNo)
AssignIds(x, r, ps, k, S) ==
    LET a == [name |-> "AssignIds", id |-> x, role |-> r, persons |-> ps, k |-> k, signers |-> S]
        g == AdminGate(x, k, S)
        gets(p) == p \in ps /\ (IF AssignSkipsDelegated THEN tokens[p] = {} \/ ~HasRoleNow(p, r) ELSE TRUE) IN
    IF g # "true" THEN Step(a @@ [res |-> g]) /\ Same
    ELSE /\ Step(a @@ [res |-> "true"])
         /\ tokens' = [p \in Ids |-> IF gets(p) THEN tokens[p] \cup {r} ELSE tokens[p]]
         /\ assigned' = assigned \cup {<<p, r>> : p \in ps}
         /\ UNCHANGED <<admin, funcs, deleg, now>>

\* delegate(contract, from, to, role, period, level, keyNo)
Delegate(x, y, r, per, lv, k, S) ==
    LET a == [name |-> "Delegate", id |-> x, to |-> y, role |-> r, period |-> per, level |-> lv, k |-> k, signers |-> S] IN
    IF ~SigOK(x, k, S) THEN Step(a @@ [res |-> "err"]) /\ Same
    ELSE IF ~HasRoleNow(x, r) \/ HasRoleNow(y, r) THEN Step(a @@ [res |-> "false"]) /\ Same
    ELSE IF LevelOf(x, r) = 2 /\ lv < 2 /\ lv > 0 /\ now + per < ExpireOf(x, r)
    THEN /\ Step(a @@ [res |-> "true"])
         /\ deleg' = [deleg EXCEPT ![y][r] = [root |-> x, expire |-> now + per, level |-> lv]]
         /\ UNCHANGED <<admin, funcs, tokens, now, assigned>>
    ELSE Step(a @@ [res |-> "false"]) /\ Same

\* withdraw(contract, initiator, delegate, role, keyNo)
Withdraw(x, y, r, k, S) ==
    LET a == [name |-> "Withdraw", id |-> x, to |-> y, role |-> r, k |-> k, signers |-> S] IN
    IF ~SigOK(x, k, S) THEN Step(a @@ [res |-> "err"]) /\ Same
    ELSE IF ~HasRoleNow(x, r) THEN Step(a @@ [res |-> "false"]) /\ Same
    ELSE IF Delegated(y, r) /\ deleg[y][r].root = x
    THEN /\ Step(a @@ [res |-> "true"])
         /\ deleg' = [deleg EXCEPT ![y][r] = NoDeleg]
         /\ UNCHANGED <<admin, funcs, tokens, now, assigned>>
    ELSE Step(a @@ [res |-> "false"]) /\ Same

\* verifyToken(contract, caller, fn, keyNo)
Verify(c, f, k, S) ==
    /\ Step([name |-> "Verify", id |-> c, fn |-> f, k |-> k, signers |-> S,
             res |-> IF ~SigOK(c, k, S) THEN "err" ELSE IF CodeHolds(c, f) THEN "true" ELSE "false"])
    /\ Same

\* the next block has a later timestamp
Tick == /\ now < MaxT /\ Step([name |-> "Tick", k |-> 1, signers |-> {}, res |-> "true"])
        /\ now' = now + 1 /\ UNCHANGED <<admin, funcs, tokens, deleg, assigned>>

\* attempts: every parameter combination properly signed by the acting identity, and -- for one
\* canonical parameter choice per acting identity -- every other way of (not) signing
R0 == CHOOSE q \in Roles : TRUE
FS0 == CHOOSE q \in FnSets : TRUE
PS0 == CHOOSE q \in PersonSets : TRUE
P0 == CHOOSE q \in Periods : TRUE
F0 == CHOOSE q \in Fns : TRUE
Next ==
    \/ \E x \in Ids : InitAdmin(x)
    \/ \E x \in Ids, m \in Modes : admin # NoId /\ Transfer(x, KeyNo(m), Signers(m, admin))
    \/ \E x \in Ids : admin = NoId /\ Transfer(x, 1, {<<x, 1>>})
    \/ \E x \in Ids, r \in Roles, fs \in FnSets, m \in Modes :
          /\ (m = "own" \/ (r = R0 /\ fs = FS0))
          /\ AssignFuncs(x, r, fs, KeyNo(m), Signers(m, x))
    \/ \E x \in Ids, r \in Roles, ps \in PersonSets, m \in Modes :
          /\ (m = "own" \/ (r = R0 /\ ps = PS0))
          /\ AssignIds(x, r, ps, KeyNo(m), Signers(m, x))
    \/ \E x \in Ids, y \in Ids, r \in Roles, per \in Periods, lv \in Levels, m \in Modes :
          /\ ((m = "own" /\ (lv = 1 \/ per = P0)) \/ (y = Other(x) /\ r = R0 /\ per = P0 /\ lv = 1))
          /\ Delegate(x, y, r, per, lv, KeyNo(m), Signers(m, x))
    \/ \E x \in Ids, y \in Ids, r \in Roles, m \in Modes :
          /\ (m = "own" \/ (y = Other(x) /\ r = R0))
          /\ Withdraw(x, y, r, KeyNo(m), Signers(m, x))
    \/ \E c \in Ids, f \in Fns, m \in Modes :
          /\ (m = "own" \/ f = F0)
          /\ Verify(c, f, KeyNo(m), Signers(m, c))
    \/ Tick

Spec == Init /\ [][Next]_vars

(******************************** properties *******************************)
TypeOK == /\ admin \in Ids \cup {NoId}
          /\ \A r \in Roles : funcs[r] \subseteq Fns
          /\ \A p \in Ids : tokens[p] \subseteq Roles
          /\ assigned \subseteq Ids \X Roles
\* C41: (given a proof of key control) verifyToken confirms exactly the functions of the roles held directly
\* or through an unexpired delegation
Exact == \A c \in Ids, f \in Fns : CodeHolds(c, f) <=> Should(c, f)
\* only the admin's assignment creates a permanent token
TokensAssigned == \A p \in Ids, r \in Roles : r \in tokens[p] => <<p, r>> \in assigned
\* a delegation is rooted in a permanent holder of the role and carries level 1
DelegByHolder == \A p \in Ids, r \in Roles : Delegated(p, r) =>
                    /\ deleg[p][r].root \in Ids /\ deleg[p][r].root # p
                    /\ r \in tokens[deleg[p][r].root] /\ deleg[p][r].level = 1
\* role tables change only on a call signed by the current admin
AdminAuth == [][(funcs' # funcs \/ tokens' # tokens) =>
                  admin # NoId /\ act'.id = admin /\ SigOK(admin, act'.k, act'.signers)]_vars
\* the admin changes only by the first initContractAdmin or by a transfer signed by the current admin
AdminChange == [][admin' # admin => \/ (admin = NoId /\ act'.name = "InitAdmin")
                                    \/ (act'.name = "Transfer" /\ SigOK(admin, act'.k, act'.signers))]_vars
\* delegations change only on a call signed by an identity that holds the role
DelegAuth == [][deleg' # deleg => /\ act'.name \in {"Delegate", "Withdraw"}
                                  /\ SigOK(act'.id, act'.k, act'.signers)
                                  /\ HasRoleNow(act'.id, act'.role)]_vars

State == [admin |-> admin, funcs |-> funcs, tokens |-> tokens, deleg |-> deleg, now |-> now, assigned |-> assigned]
=============================================================================
