SPECIFICATION Spec
CONSTANTS
  AddrNegCountPanic = FALSE
  OfflineSigSkipped = TRUE
  Level = 0
VIEW view
PROPERTIES HeaderChecksOK
INVARIANTS EveryTypeRoundTrips
CHECK_DEADLOCK FALSE
