SPECIFICATION Spec
CONSTANTS
  AddrNegCountPanic = FALSE
  OfflineSigSkipped = TRUE
  Level = 0
  ExtraBases <- ExtraGen
VIEW view
PROPERTIES HeaderChecksOK
INVARIANTS EveryTypeRoundTrips
CHECK_DEADLOCK FALSE
