----------------------------- MODULE LedgerCommit -----------------------------
(***************************************************************************)
(* Block commit and crash recovery of core/store/ledgerstore.              *)
(*                                                                         *)
(* submitBlock stages three LevelDB batches (block, event, state store),   *)
(* appends the block-root merkle hashes to merkle_tree.db EAGERLY (inside  *)
(* saveBlockToStateStore, i.e. before any commit), then commits            *)
(*   block store  ->  event store  ->  state store                         *)
(* (each batch is atomic) and finally advances the in-memory current       *)
(* block.  A crash may happen between any two of those steps.  On restart  *)
(* NewLedgerStore / InitLedgerStoreWithGenesisBlock run                    *)
(*   loadCurrentBlock (from the block store),                              *)
(*   StateStore.init  (fails unless the block merkle tree recorded in the  *)
(*                     state store has size stateHeight+1),                *)
(*   recoverStore     (re-executes every block the state store misses and  *)
(*                     commits event store, then state store, per block).  *)
(* Every step is one action; every hook point of the `verif` build tag     *)
(* (verifPoint in ledger_store.go) is the end of one action.               *)
(*                                                                         *)
(* RecoverOff = 0 is the design; RecoverOff = 1 names the deviation        *)
(* "recoverStore re-executes block i instead of i+1" so that the same      *)
(* module describes a tree with that defect.                               *)
(***************************************************************************)
EXTENDS Naturals, Sequences, TLC

CONSTANTS MaxH,        \* blocks 1..MaxH are submitted (0 is genesis)
          MaxCrash,    \* bound on the number of crashes in a behaviour
          RecoverOff   \* 0 = design; 1 = recoverStore as found in the pinned tree

VARIABLES blk,     \* block store: height of the last committed block
          evt,     \* event store: height of the last committed block
          st,      \* state store: [cur: height, applied: sequence of executed block heights, tree: block-merkle size]
          mem,     \* process memory: [up, cur (ledger current height), tree (in-memory merkle size)]
          pc,      \* control state
          pend,    \* block being committed / recovery cursor
          crashes, \* crashes so far
          torn,    \* TRUE iff the crash left a partially written hash at the tail of merkle_tree.db
          act      \* last action (history; not in the VIEW)
vars == <<blk, evt, st, mem, pc, pend, crashes, torn, act>>
view == <<blk, evt, st, mem, pc, pend, crashes, torn>>

Down == [up |-> FALSE, cur |-> 0, tree |-> 0]
Init == /\ blk = 0 /\ evt = 0 /\ st = [cur |-> 0, applied |-> <<0>>, tree |-> 1]
        /\ mem = [up |-> TRUE, cur |-> 0, tree |-> 1] /\ pc = "idle" /\ pend = 0 /\ crashes = 0 /\ torn = FALSE
        /\ act = [name |-> "Init"]

\* executeBlock + saveBlockToBlockStore/StateStore/EventStore: batches staged, merkle hash appended in memory and to the file
SubmitBegin == /\ pc = "idle" /\ mem.up /\ mem.cur < MaxH
               /\ pend' = mem.cur + 1
               /\ mem' = [mem EXCEPT !.tree = @ + 1]
               /\ pc' = "staged" /\ act' = [name |-> "SubmitBegin", h |-> mem.cur + 1]
               /\ UNCHANGED <<blk, evt, st, crashes, torn>>
CommitBlk == /\ pc = "staged" /\ blk' = pend /\ pc' = "blk" /\ act' = [name |-> "CommitBlk", h |-> pend]
             /\ UNCHANGED <<evt, st, mem, pend, crashes, torn>>
CommitEvt == /\ pc = "blk" /\ evt' = pend /\ pc' = "evt" /\ act' = [name |-> "CommitEvt", h |-> pend]
             /\ UNCHANGED <<blk, st, mem, pend, crashes, torn>>
CommitSt == /\ pc = "evt"
            /\ st' = [cur |-> pend, applied |-> Append(st.applied, pend), tree |-> mem.tree]
            /\ pc' = "st" /\ act' = [name |-> "CommitSt", h |-> pend]
            /\ UNCHANGED <<blk, evt, mem, pend, crashes, torn>>
SetCurrent == /\ pc = "st" /\ mem' = [mem EXCEPT !.cur = pend] /\ pc' = "idle"
              /\ act' = [name |-> "SetCurrent", h |-> pend]
              /\ UNCHANGED <<blk, evt, st, pend, crashes, torn>>

\* kill -9 at any point (also inside recovery): memory and staged batches are lost, committed batches stay
\* The hash file is appended eagerly and never synced with the batches: the image may end in a torn hash.
Crash == /\ pc \notin {"down", "failed"} /\ crashes < MaxCrash
         /\ crashes' = crashes + 1 /\ pc' = "down" /\ mem' = Down
         /\ \E t \in BOOLEAN : torn' = t /\ act' = [name |-> "Crash", at |-> pc, h |-> pend, torn |-> t]
         /\ UNCHANGED <<blk, evt, st, pend>>

\* NewLedgerStore + loadCurrentBlock: StateStore.init refuses a merkle tree whose size is not stateHeight+1
Reopen == /\ pc = "down"
          /\ IF st.tree # st.cur + 1
             THEN pc' = "failed" /\ UNCHANGED <<mem, pend>>
             ELSE mem' = [up |-> FALSE, cur |-> blk, tree |-> st.tree] /\ pend' = st.cur /\ pc' = "rec"
          /\ act' = [name |-> "Reopen", ok |-> (st.tree = st.cur + 1)]
          /\ torn' = FALSE   \* NewFileHashStore seeks to the committed tree size: a torn or longer tail is overwritten
          /\ UNCHANGED <<blk, evt, st, crashes>>
\* recoverStore loop head: next missing block is re-executed and staged, or the loop ends
RecStage == /\ pc = "rec" /\ pend < blk
            /\ mem' = [mem EXCEPT !.tree = @ + 1] /\ pc' = "recStaged"
            /\ act' = [name |-> "RecStage", h |-> pend + 1 - RecoverOff]
            /\ UNCHANGED <<blk, evt, st, pend, crashes, torn>>
RecEvt == /\ pc = "recStaged" /\ evt' = pend + 1 - RecoverOff /\ pc' = "recEvt"
          /\ act' = [name |-> "RecEvt", h |-> pend + 1 - RecoverOff]
          /\ UNCHANGED <<blk, st, mem, pend, crashes, torn>>
RecSt == /\ pc = "recEvt"
         /\ LET b == pend + 1 - RecoverOff IN
            st' = [cur |-> b, applied |-> Append(st.applied, b), tree |-> mem.tree]
         /\ pend' = pend + 1 /\ pc' = "rec"
         /\ act' = [name |-> "RecSt", h |-> pend + 1 - RecoverOff]
         /\ UNCHANGED <<blk, evt, mem, crashes, torn>>
RecDone == /\ pc = "rec" /\ pend >= blk
           /\ mem' = [mem EXCEPT !.up = TRUE] /\ pc' = "idle"
           /\ act' = [name |-> "RecDone"]
           /\ UNCHANGED <<blk, evt, st, pend, crashes, torn>>

Next == SubmitBegin \/ CommitBlk \/ CommitEvt \/ CommitSt \/ SetCurrent \/ Crash
        \/ Reopen \/ RecStage \/ RecEvt \/ RecSt \/ RecDone
Spec == Init /\ [][Next]_vars

(******************************** properties *******************************)
Prefix(h) == [i \in 1..(h + 1) |-> i - 1]
\* C01: whenever the ledger is open for business, it is exactly the uncrashed ledger at its height
RecoveredOK == (pc = "idle" /\ mem.up) =>
                  /\ st.cur = mem.cur /\ blk = mem.cur /\ evt = mem.cur
                  /\ st.applied = Prefix(mem.cur)          \* every block applied exactly once, in order
                  /\ st.tree = mem.cur + 1 /\ mem.tree = mem.cur + 1
\* C01: the ledger always reopens
NeverFailsToOpen == pc # "failed"
\* C01: committed heights never go backwards, and a crash loses at most the block in flight
Monotone == [][blk' >= blk /\ st'.cur >= st.cur /\ evt' >= evt]_vars
AtMostOneBehind == st.cur <= blk /\ blk <= st.cur + 1
NoDoubleApply == \A i, j \in 1..Len(st.applied) : i < j => st.applied[i] < st.applied[j]

State == [blk |-> blk, evt |-> evt, st |-> st, mem |-> mem, pc |-> pc, pend |-> pend, crashes |-> crashes, torn |-> torn]
=============================================================================
