\* quick tier, configuration S as coded (generated by props/_txpipe.cfg_text; the check generates its cfgs at run time)
SPECIFICATION Spec
CONSTANTS
  Txs <- TxAll
  HashOf <- HashAll
  BadSig <- BadSigAll
  LowGas <- LowGasAll
  Price <- PriceAll
  Drains <- DrainsAll
  SubmitTxs <- SubmitS
  StaleTxs <- NoStale
  Kinds <- KindsH
  Blocks <- BlocksS
  VLists <- VListsS
  ByCounts <- ByCountT
  QuietVerify = TRUE
  Cap = 1
  Lim = 2
  MaxTx = 1
  H0 = 1
  MaxHeight = 2
  MaxLag = 1
  MaxFly = 3
  MaxPerTx = 1
  PreExec = TRUE
  InvertedExpiry = TRUE
  CheckThenActCap = TRUE
  SlotOverReturn = TRUE
  SlotLostOnDup = TRUE
VIEW view
INVARIANTS TypeOK PoolSound Unique NoOrphan LimitsCoded
PROPERTIES GetTxPoolOK DupAnswered BlockSavedOK ReplyOnce VerifyBlockCoded
CONSTRAINT InitOut
ACTION_CONSTRAINT Edge
CHECK_DEADLOCK FALSE
