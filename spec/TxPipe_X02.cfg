SPECIFICATION Spec
CONSTANTS
  Txs <- TxAll
  HashOf <- HashAll
  BadSig <- BadSigAll
  LowGas <- LowGasAll
  Price <- PriceAll
  Drains <- DrainsAll
  SubmitTxs <- SubmitQ
  Kinds <- KindsH
  Blocks <- BlocksQ
  VLists <- VListsQ
  Cap = 2
  Lim = 2
  MaxTx = 1
  PreExec = TRUE
  H0 = 1
  MaxHeight = 2
  MaxLag = 1
  MaxFly = 3
  MaxPerTx = 1
  InvertedExpiry = TRUE
  CheckThenActCap = TRUE
  SlotOverReturn = TRUE
  SlotLostOnDup = TRUE
VIEW view
INVARIANTS TypeOK PoolSound Unique NoOrphan LimitsCoded
PROPERTIES GetTxPoolOK DupAnswered BlockSavedOK ReplyOnce VerifyBlockCoded
CONSTRAINT InitOut
ACTION_CONSTRAINT Edge
CHECK_DEADLOCK FALSE
