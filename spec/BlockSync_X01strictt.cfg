SPECIFICATION Spec
CONSTANTS
  Peers <- P2
  N = 3
  PeerH <- H3a
  Byz <- ByzP2
  Honest = "p1"
  Empty <- Empty3
  Perms <- Perms2
  MaxFlightHdr = 1
  MaxFlightBlk = 50
  MaxCache = 500
  MaxHdrFwd = 5000
  NextTimes = 3
  NextHeights = 2
  AcceptAnyBlock = FALSE
  AcceptAnyHdrPeer = FALSE
  TimeoutPickCur = TRUE
  SchedCap = 0
  MaxHeld = 3
  RecordAct = TRUE
  Acts <- ActsAll
VIEW view
INVARIANTS TypeOK FlightsKnownHash CacheAboveCommitted FlightCacheDisjoint FlightBound NoWedge
PROPERTIES UnsolicitedIgnored CommitInOrder NoRedundantReq RejectHandled TimeoutReattributes
CHECK_DEADLOCK FALSE
