-------------------------------- MODULE EvmTx --------------------------------
(***************************************************************************)
(* Application of one EIP-155 transaction to the Ontology state:            *)
(*   core/store/ledgerstore/tx_handler.go  HandleEIP155Transaction          *)
(*   smartcontract/service/evm/state_processor.go  ApplyTransaction         *)
(*   smartcontract/service/evm/state_transition.go preCheck, buyGas,        *)
(*       TransitionDb, refundGas                                            *)
(*   smartcontract/service/native/ong/ong.go OngBalanceHandle (balances),   *)
(*   smartcontract/storage/statedb.go (nonces, Suicide)                     *)
(* Amounts in gwei (= 10^-9 ONG, the V1 ONG unit); gas in gas units.        *)
(* The gas a program burns is not modelled: `used` is any amount up to the  *)
(* gas bought (taken from the log by the trace specification).  What the    *)
(* called code does with the value is modelled per target kind:             *)
(*   "eoa"  plain account, "new" contract creation, "fwd" forwards the call *)
(*   value to R with an inner CALL, "sdo" SELFDESTRUCT to beneficiary B,    *)
(*   "sds" SELFDESTRUCT with itself as beneficiary, "sto" stores and keeps  *)
(*   the value, "rev" REVERT, "loop" runs out of gas; caller contracts that *)
(*   make two inner CALLs in ONE transaction: "dd2" calls the "sdo" victim  *)
(*   twice with InnerAmt (destruct, re-fund, destruct again), "dd0" twice   *)
(*   with value 0, "dds" the "sds" victim twice with InnerAmt, "drd" first  *)
(*   the wrapper "rw" (which calls the victim and then REVERTs its frame)   *)
(*   and then the victim directly.  A contract keeps its code until the end *)
(*   of the transaction, so every inner call into it runs SELFDESTRUCT.     *)
(* Named deviation switch SelfBeneficiaryBurns: TRUE = as coded (opSuicide  *)
(* credits the beneficiary and then StateDB.Suicide zeroes the contract, so *)
(* with beneficiary = self the balance disappears); the variable `burnt`    *)
(* accounts for it and C07's conservation is NoBurn /\ Conserved.           *)
(***************************************************************************)
EXTENDS Integers, Sequences, FiniteSets, TLC

CONSTANTS Senders,       \* externally owned sender accounts
          R, B, FEE,     \* value recipient, self-destruct beneficiary, fee receiver (governance)
          NEWC,           \* stands for all contracts created by the transactions (their balances summed)
          KindOf,        \* [contract account -> kind]   ("fwd","sdo","sds","sto","rev","loop")
          GasLimits, GasPrices, Values, NonceDeltas,   \* what a transaction may carry (model checking)
          SDOV, SDSV,    \* the self-destructing victims the caller contracts call ("sdo" / "sds" kind)
          InnerAmt,      \* value of an inner CALL of the caller contracts
          Intrinsic,     \* intrinsic gas (one figure is enough for the model: below it nothing runs)
          InitBal, InitNonce,
          SelfBeneficiaryBurns,
          MaxOps

VARIABLES bal,     \* ONG balance of every tracked account
          nonce,   \* nonce of the senders
          alive,   \* contracts that still have code (not self-destructed)
          burnt,   \* ONG that left all balances
          nops, act

vars == <<bal, nonce, alive, burnt, nops, act>>
view == <<bal, nonce, alive, burnt>>

Contracts == DOMAIN KindOf
Accts == Senders \cup {R, B, FEE, NEWC} \cup Contracts
Targets == {R, NEWC} \cup Contracts

RECURSIVE SumOver(_, _)
SumOver(f, S) == IF S = {} THEN 0 ELSE LET x == CHOOSE y \in S : TRUE IN f[x] + SumOver(f, S \ {x})
Total(b) == SumOver(b, Accts)

Init == /\ bal = InitBal /\ nonce = InitNonce /\ alive = Contracts /\ burnt = 0
        /\ nops = 0 /\ act = [name |-> "Init"]

Step(a) == nops < MaxOps /\ nops' = nops + 1 /\ act' = a

Move(b, from, to, amt) == LET b1 == [b EXCEPT ![from] = @ - amt] IN [b1 EXCEPT ![to] = @ + amt]

\* preCheck: the nonce of the transaction must equal the account nonce, otherwise the transaction is rejected
\* before anything is touched
Reject(s, to, nd, gl, gp, v) ==
    /\ nd # 0
    /\ Step([name |-> "Rejected", s |-> s, to |-> to, nd |-> nd, gl |-> gl, gp |-> gp, v |-> v])
    /\ UNCHANGED <<bal, nonce, alive, burnt>>

\* buyGas: gasLimit*gasPrice, or as much gas as the balance buys (non-mainnet chain ids: whole gas units only)
Bought(s, gl, gp) == IF gp > 0 /\ bal[s] < gl * gp THEN bal[s] \div gp ELSE gl

\* one inner CALL (value c) from contract k into the self-destructing victim vic, on st = [b, alive, burnt];
\* the victim runs its code iff it had code when the transaction started (code is removed at the end of the tx)
Inner(st, k, vic, c) ==
    IF st.b[k] < c THEN st                              \* CALL fails for lack of balance, the frame goes on
    ELSE LET b1 == Move(st.b, k, vic, c) IN
         IF vic \notin alive THEN [st EXCEPT !.b = b1]  \* no code any more: a plain value transfer
         ELSE IF KindOf[vic] = "sdo"
              THEN [b |-> Move(b1, vic, B, b1[vic]), alive |-> st.alive \ {vic}, burnt |-> st.burnt]
              ELSE IF SelfBeneficiaryBurns
                   THEN [b |-> [b1 EXCEPT ![vic] = 0], alive |-> st.alive \ {vic}, burnt |-> st.burnt + b1[vic]]
                   ELSE [b |-> b1, alive |-> st.alive \ {vic}, burnt |-> st.burnt]

\* what the code at `to` does with the value v it received, on balances b (value already credited to `to`);
\* returns the set of possible [b, alive, burnt] outcomes of a SUCCESSFUL call (an inner CALL may also fail for gas)
CallEffects(b, to, v) ==
    LET k == IF to \in Contracts /\ to \in alive THEN KindOf[to] ELSE "plain"
        st0 == [b |-> b, alive |-> alive, burnt |-> burnt]
    IN
    IF k = "fwd" THEN {[b |-> Move(b, to, R, v), alive |-> alive, burnt |-> burnt],     \* inner CALL succeeded
                       st0}                                                             \* inner CALL failed (gas), value stays
    ELSE IF k = "sdo" THEN {[b |-> Move(b, to, B, b[to]), alive |-> alive \ {to}, burnt |-> burnt]}
    ELSE IF k = "sds" THEN IF SelfBeneficiaryBurns
                           THEN {[b |-> [b EXCEPT ![to] = 0], alive |-> alive \ {to}, burnt |-> burnt + b[to]]}
                           ELSE {[b |-> b, alive |-> alive \ {to}, burnt |-> burnt]}
    ELSE IF k = "dd2" THEN {st0, Inner(st0, to, SDOV, InnerAmt), Inner(Inner(st0, to, SDOV, InnerAmt), to, SDOV, InnerAmt)}
    ELSE IF k = "dd0" THEN {st0, Inner(st0, to, SDOV, 0), Inner(Inner(st0, to, SDOV, 0), to, SDOV, 0)}
    ELSE IF k = "dds" THEN {st0, Inner(st0, to, SDSV, InnerAmt), Inner(Inner(st0, to, SDSV, InnerAmt), to, SDSV, InnerAmt)}
    ELSE IF k = "drd" THEN {st0, Inner(st0, to, SDOV, InnerAmt)}     \* the wrapper's frame is always reverted
    ELSE {st0}       \* plain account, created contract, "sto"

MustFail(to) == to \in Contracts /\ to \in alive /\ KindOf[to] \in {"rev", "loop", "rw"}

\* TransitionDb for a transaction with the right nonce
Apply(s, to, gl, gp, v, used, ok, intr) ==
    LET g == Bought(s, gl, gp)
        afterBuy == bal[s] - g * gp
        fee == used * gp
        b1 == Move(bal, s, FEE, fee)                       \* net effect of buy gas / refund / pay the fee receiver
    IN /\ used <= g
       /\ (g < intr => used = g /\ ~ok)               \* "intrinsic gas too low": all bought gas is used, nothing runs
       /\ (ok => g >= intr /\ v <= afterBuy /\ ~MustFail(to))
       /\ (MustFail(to) /\ g > intr /\ v <= afterBuy /\ KindOf[to] = "loop" => used = g)
       /\ nonce' = [nonce EXCEPT ![s] = @ + 1]
       /\ IF ok
          THEN \E e \in CallEffects(Move(b1, s, to, v), to, v) : bal' = e.b /\ alive' = e.alive /\ burnt' = e.burnt
          ELSE bal' = b1 /\ UNCHANGED <<alive, burnt>>
       /\ Step([name |-> "Applied", s |-> s, to |-> to, nd |-> 0, gl |-> gl, gp |-> gp, v |-> v, used |-> used, ok |-> ok])

Next == \E s \in Senders, to \in Targets, gl \in GasLimits, gp \in GasPrices, v \in Values :
           \/ \E nd \in NonceDeltas : Reject(s, to, nd, gl, gp, v)
           \/ \E used \in 0..gl, ok \in BOOLEAN : Apply(s, to, gl, gp, v, used, ok, Intrinsic)

Spec == Init /\ [][Next]_vars

(******************************* properties ********************************)
TypeOK == /\ \A a \in Accts : bal[a] \in Nat
          /\ \A s \in Senders : nonce[s] \in Nat
NonNeg == \A a \in Accts : bal[a] >= 0
IsTx == nops' # nops /\ act'.name \in {"Applied", "Rejected"}
\* C07: ONG only moves between the sender, the recipients of value transfers and the fee receiver: the total is unchanged
ConservedStep == IsTx => Total(bal') + burnt' = Total(bal) + burnt
Conserved == [][ConservedStep]_vars
NoBurnStep == IsTx => burnt' = burnt
NoBurn == [][NoBurnStep]_vars
\* C07: the sender is charged at most gasLimit*gasPrice plus the value
ChargeBoundStep == IsTx /\ act'.name = "Applied" =>
                      bal[act'.s] - bal'[act'.s] <= act'.gl * act'.gp + act'.v
ChargeBound == [][ChargeBoundStep]_vars
\* C07: the sender's nonce advances by exactly one whether the call succeeds or not; no other nonce moves
NonceStepStep == IsTx /\ act'.name = "Applied" =>
                    nonce' = [nonce EXCEPT ![act'.s] = @ + 1]
NonceStep == [][NonceStepStep]_vars
\* C07: a transaction with a wrong nonce changes nothing
RejectedNoOpStep == IsTx /\ act'.name = "Rejected" => bal' = bal /\ nonce' = nonce /\ alive' = alive /\ burnt' = burnt
RejectedNoOp == [][RejectedNoOpStep]_vars
\* the fee receiver gets exactly used*price and only that
FeeStep == IsTx /\ act'.name = "Applied" /\ act'.to # FEE => bal'[FEE] - bal[FEE] = act'.used * act'.gp
FeeExact == [][FeeStep]_vars

State == [bal |-> bal, nonce |-> nonce, alive |-> alive, burnt |-> burnt]
=============================================================================
