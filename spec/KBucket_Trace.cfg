SPECIFICATION TSpec
CONSTANTS
  IdBits <- TIds
  LocalBits <- TLocal
  K <- TK
  Peers <- TNone
  Targets <- TNone
  Counts <- TNone
  MaxOps = 100000000
INVARIANTS Valid
CONSTRAINT HW
POSTCONDITION Accepted
CHECK_DEADLOCK FALSE
