SPECIFICATION TSpec
CONSTANTS
  IdBits <- TIds
  LocalBits <- TLocal
  K <- TK
  Peers <- TNone
  Addrs <- TNone
  Targets <- TNone
  Counts <- TNone
  MaxOps = 100000000
INVARIANTS Valid AddrOK SizeOK
CONSTRAINT HW
POSTCONDITION Accepted
CHECK_DEADLOCK FALSE
