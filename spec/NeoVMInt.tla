------------------------------ MODULE NeoVMInt ------------------------------
(***************************************************************************)
(* Integer semantics of the NeoVM arithmetic, bitwise, shift and comparison *)
(* opcodes (property C13), written over MATHEMATICAL integers.              *)
(*                                                                          *)
(* Code being described: vm/neovm/executor.go (cases INVERT .. WITHIN) and  *)
(* vm/neovm/types/int_value.go (IntValue.{Add,Sub,Mul,Div,Mod,Lsh,Rsh,...}, *)
(* IntValFromBigInt = the size bound).                                      *)
(*                                                                          *)
(* The module is pure (no variables).  It is used twice:                    *)
(*   * NeoVMInt_MC  (TLC)      — Bound = 2^7: the laws below are checked on  *)
(*                               every operand pair of a small VM, and the   *)
(*                               symbolic operand-class rows are enumerated. *)
(*   * NeoVMIntTab_* (Apalache) — Bound = 2^256: Conf*(...) is evaluated on   *)
(*                               the table recorded from the real Executor.  *)
(* The file stays inside the fragment both TLC and Apalache accept          *)
(* (no recursion, every operator annotated).                                *)
(***************************************************************************)
EXTENDS Integers, Sequences

CONSTANTS
    \* @type: Int;
    Bound,        \* a value v fits iff -Bound < v < Bound   (code: len(|v|.Bytes()) <= MAX_INT_SIZE, Bound = 2^256)
    \* @type: Int;
    MaxShift,     \* SHL faults for a shift count > MaxShift (code: MAX_INT_SIZE*8 = 256); an operand bound of the VM
    \* @type: Int;
    MaxShrCount,  \* SHR faults for a shift count > MaxShrCount (code: the count must fit a uint64); an operand bound of the VM
    \* @type: Bool;
    CmpUnbounded, \* named deviation: LT/GT/LTE/GTE/NUMEQUAL/NUMNOTEQUAL do not enforce the size bound on their operands
    \* @type: Bool;
    InvertUnchecked \* named deviation: INVERT pushes -x-1 without the size check

BinOps == {"ADD", "SUB", "MUL", "DIV", "MOD", "MAX", "MIN", "AND", "OR", "XOR", "SHL", "SHR",
           "NUMEQUAL", "NUMNOTEQUAL", "LT", "GT", "LTE", "GTE"}
UnOps == {"INC", "DEC", "SIGN", "NEGATE", "ABS", "INVERT", "NZ"}
BitOps == {"AND", "OR", "XOR"}
CmpOps == {"NUMEQUAL", "NUMNOTEQUAL", "LT", "GT", "LTE", "GTE"}

\* @type: (Int) => Bool;
Fits(v) == -Bound < v /\ v < Bound

\* @type: (Int) => Int;
Abs(v) == IF v < 0 THEN -v ELSE v
\* @type: (Int) => Int;
Sgn(v) == IF v < 0 THEN -1 ELSE IF v = 0 THEN 0 ELSE 1
\* truncated division (toward zero) and its remainder (sign of the dividend); b # 0
\* @type: (Int, Int) => Int;
Quo(a, b) == Sgn(a) * Sgn(b) * (Abs(a) \div Abs(b))
\* @type: (Int, Int) => Int;
Rem(a, b) == a - b * Quo(a, b)
\* @type: (Bool) => Int;
B2I(p) == IF p THEN 1 ELSE 0

(***************************************************************************)
(* Outcome of an opcode: [f |-> TRUE] = FAULT, [f |-> FALSE, v |-> n] = the  *)
(* integer n is on top of the evaluation stack (booleans as 0/1).           *)
(***************************************************************************)
\* @type: () => { f: Bool, v: Int };
Fault == [f |-> TRUE, v |-> 0]
\* @type: (Int) => { f: Bool, v: Int };
Ok(n) == [f |-> FALSE, v |-> n]
\* @type: (Int) => { f: Bool, v: Int };
Bounded(n) == IF Fits(n) THEN Ok(n) ELSE Fault

\* 2^n for a legal shift count (the guard keeps the exponent small and constant-foldable for every argument)
\* @type: (Int) => Int;
Pow2(n) == 2 ^ (IF 0 <= n /\ n <= MaxShift THEN n ELSE 0)
\* floor(a / p) for p > 0, written with non-negative dividends only (tools disagree on \div of negatives)
\* @type: (Int, Int) => Int;
FloorDiv(a, p) == IF a >= 0 THEN a \div p ELSE -((-a + p - 1) \div p)
\* shift right = floor division by 2^n; for n > MaxShift the quotient of a fitting value is 0 or -1
\* @type: (Int, Int) => Int;
ShrExact(a, n) == IF n > MaxShift THEN (IF a < 0 THEN -1 ELSE 0) ELSE FloorDiv(a, Pow2(n))

(***************************************************************************)
(* Exact result of the non-bitwise opcodes; stack order: a below b.  One    *)
(* operator per opcode (the Apalache tables call them directly, which keeps *)
(* the inlined expressions small); ResArith/ResUn dispatch on the name.     *)
(***************************************************************************)
\* @type: (Int, Int) => Bool;
Fits2(a, b) == Fits(a) /\ Fits(b)
\* @type: (Int, Int) => Bool;
CmpFits(a, b) == CmpUnbounded \/ Fits2(a, b)
\* @type: (Int) => Int;
NZ1(b) == IF b = 0 THEN 1 ELSE b     \* keeps every division total (the b = 0 case is decided before)

\* @type: (Int, Int) => { f: Bool, v: Int };
ResADD(a, b) == IF Fits2(a, b) THEN Bounded(a + b) ELSE Fault
\* @type: (Int, Int) => { f: Bool, v: Int };
ResSUB(a, b) == IF Fits2(a, b) THEN Bounded(a - b) ELSE Fault
\* @type: (Int, Int) => { f: Bool, v: Int };
ResMUL(a, b) == IF Fits2(a, b) THEN Bounded(a * b) ELSE Fault
\* @type: (Int, Int) => { f: Bool, v: Int };
ResDIV(a, b) == IF Fits2(a, b) /\ b # 0 THEN Bounded(Quo(a, NZ1(b))) ELSE Fault
\* @type: (Int, Int) => { f: Bool, v: Int };
ResMOD(a, b) == IF Fits2(a, b) /\ b # 0 THEN Bounded(Rem(a, NZ1(b))) ELSE Fault
\* @type: (Int, Int) => { f: Bool, v: Int };
ResMAX(a, b) == IF Fits2(a, b) THEN Ok(IF a < b THEN b ELSE a) ELSE Fault
\* @type: (Int, Int) => { f: Bool, v: Int };
ResMIN(a, b) == IF Fits2(a, b) THEN Ok(IF a < b THEN a ELSE b) ELSE Fault
\* @type: (Int, Int) => { f: Bool, v: Int };
ResSHL(a, b) == IF Fits2(a, b) /\ 0 <= b /\ b <= MaxShift THEN Bounded(a * Pow2(b)) ELSE Fault
\* @type: (Int, Int) => { f: Bool, v: Int };
ResSHR(a, b) == IF Fits2(a, b) /\ 0 <= b /\ b <= MaxShrCount THEN Ok(ShrExact(a, b)) ELSE Fault
\* @type: (Int, Int) => { f: Bool, v: Int };
ResNUMEQUAL(a, b) == IF CmpFits(a, b) THEN Ok(B2I(a = b)) ELSE Fault
\* @type: (Int, Int) => { f: Bool, v: Int };
ResNUMNOTEQUAL(a, b) == IF CmpFits(a, b) THEN Ok(B2I(a # b)) ELSE Fault
\* @type: (Int, Int) => { f: Bool, v: Int };
ResLT(a, b) == IF CmpFits(a, b) THEN Ok(B2I(a < b)) ELSE Fault
\* @type: (Int, Int) => { f: Bool, v: Int };
ResGT(a, b) == IF CmpFits(a, b) THEN Ok(B2I(a > b)) ELSE Fault
\* @type: (Int, Int) => { f: Bool, v: Int };
ResLTE(a, b) == IF CmpFits(a, b) THEN Ok(B2I(a <= b)) ELSE Fault
\* @type: (Int, Int) => { f: Bool, v: Int };
ResGTE(a, b) == IF CmpFits(a, b) THEN Ok(B2I(a >= b)) ELSE Fault

\* @type: (Str, Int, Int) => { f: Bool, v: Int };
ResArith(op, a, b) ==
    CASE op = "ADD" -> ResADD(a, b) [] op = "SUB" -> ResSUB(a, b) [] op = "MUL" -> ResMUL(a, b)
      [] op = "DIV" -> ResDIV(a, b) [] op = "MOD" -> ResMOD(a, b) [] op = "MAX" -> ResMAX(a, b)
      [] op = "MIN" -> ResMIN(a, b) [] op = "SHL" -> ResSHL(a, b) [] op = "SHR" -> ResSHR(a, b)
      [] op = "NUMEQUAL" -> ResNUMEQUAL(a, b) [] op = "NUMNOTEQUAL" -> ResNUMNOTEQUAL(a, b)
      [] op = "LT" -> ResLT(a, b) [] op = "GT" -> ResGT(a, b) [] op = "LTE" -> ResLTE(a, b)
      [] op = "GTE" -> ResGTE(a, b) [] OTHER -> Fault

\* @type: (Int) => { f: Bool, v: Int };
ResINC(a) == IF Fits(a) THEN Bounded(a + 1) ELSE Fault
\* @type: (Int) => { f: Bool, v: Int };
ResDEC(a) == IF Fits(a) THEN Bounded(a - 1) ELSE Fault
\* @type: (Int) => { f: Bool, v: Int };
ResSIGN(a) == IF Fits(a) THEN Ok(Sgn(a)) ELSE Fault
\* @type: (Int) => { f: Bool, v: Int };
ResNEGATE(a) == IF Fits(a) THEN Bounded(-a) ELSE Fault
\* @type: (Int) => { f: Bool, v: Int };
ResABS(a) == IF Fits(a) THEN Bounded(Abs(a)) ELSE Fault
\* @type: (Int) => { f: Bool, v: Int };
ResINVERT(a) == IF Fits(a) THEN (IF InvertUnchecked THEN Ok(-a - 1) ELSE Bounded(-a - 1)) ELSE Fault
\* @type: (Int) => { f: Bool, v: Int };
ResNZ(a) == IF Fits(a) THEN Ok(B2I(a # 0)) ELSE Fault

\* @type: (Str, Int) => { f: Bool, v: Int };
ResUn(op, a) ==
    CASE op = "INC" -> ResINC(a) [] op = "DEC" -> ResDEC(a) [] op = "SIGN" -> ResSIGN(a)
      [] op = "NEGATE" -> ResNEGATE(a) [] op = "ABS" -> ResABS(a) [] op = "INVERT" -> ResINVERT(a)
      [] op = "NZ" -> ResNZ(a) [] OTHER -> Fault

\* WITHIN: x a b -> a <= x < b
\* @type: (Int, Int, Int) => { f: Bool, v: Int };
ResWithin(x, a, b) == IF ~(Fits(x) /\ Fits(a) /\ Fits(b)) THEN Fault ELSE Ok(B2I(a <= x /\ x < b))

(***************************************************************************)
(* Bitwise opcodes.  AND/OR/XOR act on the infinite two's-complement        *)
(* expansions.  The semantics is stated on LIMBS: a value is written as 18  *)
(* digits in base W (least significant first, two's complement: the value   *)
(* is negative iff the top digit has its high bit set); a bitwise opcode    *)
(* acts digit by digit, bit by bit inside a digit (BitOp).  With W = 2^16   *)
(* the 288 bits hold every operand that fits the 256-bit bound and every    *)
(* result.  TLC evaluates the digit-wise operation (small integers, see     *)
(* NeoVMInt_MC!LimbsOp); Apalache evaluates LimbVal18 (big integers) to tie *)
(* the digits to the operands and to the result observed on the Executor.   *)
(***************************************************************************)
\* @type: (Str, Int, Int) => Int;
BitOp(op, x, y) == CASE op = "AND" -> x * y
                     [] op = "OR"  -> x + y - x * y
                     [] OTHER      -> (x + y) % 2
\* value of the 18 base-W digits l1 (least significant) .. l18 in two's complement
\* @type: (Int, Int, Int, Int, Int, Int, Int, Int, Int, Int, Int, Int, Int, Int, Int, Int, Int, Int, Int) => Int;
LimbVal18(W, l1, l2, l3, l4, l5, l6, l7, l8, l9, l10, l11, l12, l13, l14, l15, l16, l17, l18) ==
    (l1 + W * (l2 + W * (l3 + W * (l4 + W * (l5 + W * (l6 + W * (l7 + W * (l8 + W * (l9 + W * (l10 + W * (l11 + W * (l12 + W * (l13 + W * (l14 + W * (l15 + W * (l16 + W * (l17 + W * (l18)))))))))))))))))) - (IF 2 * l18 >= W THEN W ^ 18 ELSE 0)

(***************************************************************************)
(* Conformance predicates: "the observed outcome (fault flag gf, value gv)  *)
(* of the real Executor is the specified one".                              *)
(***************************************************************************)
\* @type: ({ f: Bool, v: Int }, Bool, Int) => Bool;
Conf(r, gf, gv) == r.f = gf /\ (~gf => r.v = gv)
\* Operands are VALUES: an opcode consumes its operands and pushes Res; every other reference to the same integer
\* (a DUP copy lower on the stack, an alt-stack item, an array element) still denotes the integer it denoted before.
\* a = the operand, k = the value read from the kept reference after the opcode ran on the real Executor.
\* @type: (Int, Int) => Bool;
Kept(a, k) == k = a
\* bitwise rows: vr is LimbVal18 of the digits TLC computed from the operands' digits (exact result);
\* it may fall outside the bound (e.g. -(Bound-1) AND -2 = -Bound), then the opcode faults.
\* @type: (Int, Int, Int, Bool, Int) => Bool;
ConfBit(a, b, vr, gf, gv) ==
    IF ~(Fits(a) /\ Fits(b)) THEN gf ELSE Conf(Bounded(vr), gf, gv)
=============================================================================
