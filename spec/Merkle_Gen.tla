----------------------------- MODULE Merkle_Gen -----------------------------
\* sampled start sizes / <<m, s>> pairs for SpecBig; replaced per run by props/C26.py (seeded by VERIF_SEED)
GenBig == {}
GenPairs == {}
=============================================================================
