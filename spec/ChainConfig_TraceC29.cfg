SPECIFICATION TSpec
CONSTANTS
  Pools <- TNone
  Confs <- TNone
  Hashes <- TNone
  Vrfs <- TNone
  ListsOf <- TLists
  Acts <- TActs
INVARIANTS WellFormedInv
CONSTRAINT HW
POSTCONDITION Accepted
CHECK_DEADLOCK FALSE
