---------------------------- MODULE BlockWire_Tab ----------------------------
(* placeholder: props/C20.py generates this module for every run *)
EXTENDS TLC
TxRaws == <<>>
CanonKeys == <<>>
KeyTabGen == <<>>
BadKeys == {}
RootTabGen == <<>>
=============================================================================
