---------------------------- MODULE ConnCtrl_MC ----------------------------
EXTENDS ConnCtrl, Json

\* i1,i2: two peers behind IP A; i3: a peer at IP B; i4: the peer of i3 reconnecting (same id, same IP, new port);
\* i5: an attempt from IP C presenting the peer id of i1; o1,o2: dials to two peers; o3: a second dial to o1's address;
\* o4: a dial to the listen address announced by the peer of i1.
\* i6: the peer of i1 reconnecting from the SAME source ip:port (the old socket is dead but may still be recorded).
ConnsAll == {"i1", "i2", "i3", "i4", "i5", "i6", "o1", "o2", "o3", "o4"}
ConnsQ3 == {"i1", "i6", "i2", "i3"}                  \* reconnect from a recorded remote address, then fill to the limit
ConnsQ == {"i1", "i2", "i3", "o1", "o2"}            \* the three limits under concurrency
ConnsQ2 == {"i1", "i5", "o1", "o3", "o4"}           \* address / connecting-list / peer-id refusals
ConnsT == {"i1", "i2", "i3", "i4", "o1", "o2", "o3"}
ConnsT2 == {"i1", "i2", "i5", "o1", "o3", "o4"}

DirM == [c \in ConnsAll |-> IF c \in {"o1", "o2", "o3", "o4"} THEN "out" ELSE "in"]
IpM == "i6" :> "A" @@ "i1" :> "A" @@ "i2" :> "A" @@ "i3" :> "B" @@ "i4" :> "B" @@ "i5" :> "C" @@ "o1" :> "D" @@ "o2" :> "E" @@ "o3" :> "D" @@ "o4" :> "A"
AddrM == "i6" :> "A:1" @@ "i1" :> "A:1" @@ "i2" :> "A:2" @@ "i3" :> "B:1" @@ "i4" :> "B:2" @@ "i5" :> "C:1"
         @@ "o1" :> "D:9" @@ "o2" :> "E:9" @@ "o3" :> "D:9" @@ "o4" :> "A:9"
ListenM == "i6" :> "A:9" @@ "i1" :> "A:9" @@ "i2" :> "A:8" @@ "i3" :> "B:9" @@ "i4" :> "B:9" @@ "i5" :> "C:9"
           @@ "o1" :> "D:9" @@ "o2" :> "E:9" @@ "o3" :> "D:9" @@ "o4" :> "A:9"
KidM == "i6" :> "k1" @@ "i1" :> "k1" @@ "i2" :> "k2" @@ "i3" :> "k3" @@ "i4" :> "k3" @@ "i5" :> "k1"
        @@ "o1" :> "k4" @@ "o2" :> "k5" @@ "o3" :> "k4" @@ "o4" :> "k1"
IpOfAddrM == "A:1" :> "A" @@ "A:2" :> "A" @@ "A:8" :> "A" @@ "A:9" :> "A" @@ "B:1" :> "B" @@ "B:2" :> "B" @@ "B:9" :> "B"
             @@ "C:1" :> "C" @@ "C:9" :> "C" @@ "D:9" :> "D" @@ "E:9" :> "E"

Edge == PrintT(<<"EDGE", ToJson([from |-> State, act |-> act', to |-> State'])>>)
InitOut == (TLCGet("level") = 1) => PrintT(<<"INIT", ToJson(State)>>)
=============================================================================
