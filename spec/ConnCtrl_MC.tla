---------------------------- MODULE ConnCtrl_MC ----------------------------
EXTENDS ConnCtrl, Json

\* i1,i2: two peers behind IP A; i3: a peer at IP B; i4: the peer of i3 reconnecting (same id, same IP, new port);
\* i5: an attempt from IP C presenting the peer id of i1; o1,o2: dials to two peers; o3: a second dial to o1's address;
\* o4: a dial to the listen address announced by the peer of i1.
\* i6: the peer of i1 reconnecting from the SAME source ip:port (the old socket is dead but may still be recorded).
\* i7: a third peer behind IP A (with i1, i2: more concurrent attempts from one IP than a per-IP limit of 2 has slots).
ConnsAll == {"i1", "i2", "i3", "i4", "i5", "i6", "i7", "o1", "o2", "o3", "o4"}
ConnsQ3 == {"i1", "i6", "i2", "i3"}                  \* reconnect from a recorded remote address, then fill to the limit
ConnsQ == {"i1", "i2", "i3", "o1", "o2"}            \* the three limits under concurrency
ConnsQ2 == {"i1", "i5", "o1", "o3", "o4"}           \* address / connecting-list / peer-id refusals
ConnsF == {"i1", "i2", "i7", "i3"}                  \* inbound attempts from one IP (three ports) and a second IP, run over every address plan
ConnsF2 == {"i1", "i2", "i7", "i3", "o4"}           \* ... plus a dial to the listen address announced by the peer of i1
ConnsT == {"i1", "i2", "i3", "i4", "o1", "o2", "o3"}
ConnsT2 == {"i1", "i2", "i5", "o1", "o3", "o4"}

DirM == [c \in ConnsAll |-> IF c \in {"o1", "o2", "o3", "o4"} THEN "out" ELSE "in"]
IpM == "i6" :> "A" @@ "i1" :> "A" @@ "i2" :> "A" @@ "i7" :> "A" @@ "i3" :> "B" @@ "i4" :> "B" @@ "i5" :> "C" @@ "o1" :> "D" @@ "o2" :> "E" @@ "o3" :> "D" @@ "o4" :> "A"
PortM == "i6" :> "1" @@ "i1" :> "1" @@ "i2" :> "2" @@ "i7" :> "3" @@ "i3" :> "1" @@ "i4" :> "2" @@ "i5" :> "1"
         @@ "o1" :> "9" @@ "o2" :> "9" @@ "o3" :> "9" @@ "o4" :> "9"
LPortM == "i6" :> "9" @@ "i1" :> "9" @@ "i2" :> "8" @@ "i7" :> "7" @@ "i3" :> "9" @@ "i4" :> "9" @@ "i5" :> "9"
          @@ "o1" :> "9" @@ "o2" :> "9" @@ "o3" :> "9" @@ "o4" :> "9"
KidM == "i6" :> "k1" @@ "i1" :> "k1" @@ "i2" :> "k2" @@ "i7" :> "k7" @@ "i3" :> "k3" @@ "i4" :> "k3" @@ "i5" :> "k1"
        @@ "o1" :> "k4" @@ "o2" :> "k5" @@ "o3" :> "k4" @@ "o4" :> "k1"

(* The address plans: textual realisations of the abstract IPs A..E and of the port ids (1,2,3 = source ports of       *)
(* inbound sockets, 7,8,9 = listen ports).  v4: plain IPv4.  v6: IPv6 loopback (A), global unicast, link-local with    *)
(* zone.  v4prefix / v6prefix: the host text of A is a proper prefix of the host text of B and C (and D of E), and     *)
(* the port text 1 a prefix of 2 and 3, 7 a prefix of 8 and 9 (A is also a textual suffix of D).  mixed: both         *)
(* families, A (IPv6) and B (IPv4) being the two loopbacks.                                                            *)
H4(t) == [fam |-> "v4", host |-> t]
H6(t) == [fam |-> "v6", host |-> t]
PortsPlain == "1" :> "30001" @@ "2" :> "30002" @@ "3" :> "30003" @@ "7" :> "20337" @@ "8" :> "20339" @@ "9" :> "20338"
PortsPrefix == "1" :> "3000" @@ "2" :> "30001" @@ "3" :> "30002" @@ "7" :> "2033" @@ "8" :> "20339" @@ "9" :> "20338"
PlanNames == {"v4", "v6", "v4prefix", "v6prefix", "mixed"}
PlanM == [p \in PlanNames |->
    CASE p = "v4" -> [host |-> "A" :> H4("10.0.0.1") @@ "B" :> H4("10.0.0.2") @@ "C" :> H4("10.0.0.3") @@ "D" :> H4("10.0.0.4") @@ "E" :> H4("10.0.0.5"),
                      port |-> PortsPlain]
      [] p = "v6" -> [host |-> "A" :> H6("::1") @@ "B" :> H6("2001:db8::1") @@ "C" :> H6("fe80::1%eth0") @@ "D" :> H6("2001:db8::2") @@ "E" :> H6("2001:db8:0:1::2"),
                      port |-> PortsPlain]
      [] p = "v4prefix" -> [host |-> "A" :> H4("1.2.3.4") @@ "B" :> H4("1.2.3.40") @@ "C" :> H4("1.2.3.41") @@ "D" :> H4("11.2.3.4") @@ "E" :> H4("11.2.3.40"),
                            port |-> PortsPrefix]
      [] p = "v6prefix" -> [host |-> "A" :> H6("::1") @@ "B" :> H6("::10") @@ "C" :> H6("::1:0") @@ "D" :> H6("2001:db8::1") @@ "E" :> H6("2001:db8::1:0"),
                            port |-> PortsPrefix]
      [] p = "mixed" -> [host |-> "A" :> H6("::1") @@ "B" :> H4("127.0.0.1") @@ "C" :> H4("10.0.0.3") @@ "D" :> H6("2001:db8::2") @@ "E" :> H4("10.0.0.5"),
                         port |-> PortsPlain]]
PlansBase == {"v4"}
PlansForms == {"v6", "v4prefix", "v6prefix", "mixed"}
PlansV6 == {"v6"}
PlansAll == PlanNames

Edge == PrintT(<<"EDGE", ToJson([from |-> State, act |-> act', to |-> State'])>>)
\* besides the initial state: the texts of the plan (the harness gives its net.Conn / dial addresses exactly these)
PlanOut == [plan |-> plan, conns |-> [c \in Conns |-> [addr |-> AddrOf(c), listen |-> ListenOf(c), ip |-> HostOf(c).host, fam |-> HostOf(c).fam,
                                                     lport |-> PlanTab[plan].port[LPortOf[c]]]]]
InitOut == (TLCGet("level") = 1) => PrintT(<<"INIT", ToJson(State)>>) /\ PrintT(<<"NOTE", ToJson(PlanOut)>>)
=============================================================================
