\* Reference copy of the design configuration of C38 (deviation switches off: Persist, Opens, OneDefault must hold).
\* props/C38.py generates its configurations (design + code-as-found with probed switches) from props/_wallet.cfg_text.
SPECIFICATION Spec
CONSTANTS
  ImportIds = {1, 2}
  NewIdSeq <- NewSeq3
  ArgLabels = {"", "x"}
  Pwds = {"p", "q"}
  Schemes = {"SHA256withECDSA", "SHA3-256withECDSA"}
  BadScheme = "SM3withSM2"
  WScrypt = "low"
  MaxObj = 3
  MaxOps = 5
  Acts = {"New", "Import", "Delete", "SetDefault", "SetLabel", "ChangePassword", "ChangeScheme", "Reload", "SetFault", "ClearFault"}
  NewIgnoresWalletScrypt = FALSE
  DupAddrImport = FALSE
  Threads = {1}
  Split = {}
  OneShot = FALSE
VIEW view
INVARIANTS TypeOK Saved Persist Opens OneDefault DefaultListed
PROPERTIES FailNoChange
CHECK_DEADLOCK FALSE
