SPECIFICATION Spec
CONSTANTS
  ImportIds <- Ids123
  NewIdSeq <- NoNew
  ArgLabels <- LabelsX
  Pwds <- Pwds2
  Schemes <- Schemes2
  BadScheme = "SM3withSM2"
  WScrypt = "low"
  MaxObj = 3
  MaxOps = 4
  Acts <- ActsNoNew
  NewIgnoresWalletScrypt = FALSE
  DupAddrImport = FALSE
VIEW view
INVARIANTS TypeOK Saved Persist Opens OneDefault
CONSTRAINT InitOut
ACTION_CONSTRAINT Edge
CHECK_DEADLOCK FALSE
