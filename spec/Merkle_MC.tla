----------------------------- MODULE Merkle_MC -----------------------------
EXTENDS Merkle, Json
EdgeA == PrintT(<<"EDGE", ToJson([from |-> StateA, act |-> act', to |-> StateA'])>>)
InitOutA == (TLCGet("level") = 1) => PrintT(<<"INIT", ToJson(StateA)>>)
=============================================================================
