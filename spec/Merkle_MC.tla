----------------------------- MODULE Merkle_MC -----------------------------
EXTENDS Merkle, Json, Merkle_Gen
EdgeA == PrintT(<<"EDGE", ToJson([from |-> StateA, act |-> act', to |-> StateA'])>>)
InitOutA == (TLCGet("level") = 1) => PrintT(<<"INIT", ToJson(StateA)>>)
\* SpecBig: no torn tails, so the file is the function FileOf(HashesD(0, n)) of n (invariant FileOK);
\* it is not printed (the harness derives it from n with its own evaluator)
StateBig == [n |-> n, nh |-> PopCount(n), wpos |-> wpos, mem |-> mem, k |-> k]
EdgeBig == PrintT(<<"EDGE", ToJson([from |-> StateBig, act |-> act', to |-> StateBig'])>>)
InitOutBig == (TLCGet("level") = 1) => PrintT(<<"INIT", ToJson(StateBig)>>)
=============================================================================
