SPECIFICATION Spec
CONSTANTS
  MaxH = 3
  MaxCrash = 2
  RecoverOff = 0
VIEW view
INVARIANTS RecoveredOK NeverFailsToOpen AtMostOneBehind NoDoubleApply
PROPERTIES Monotone
CONSTRAINT InitOut
ACTION_CONSTRAINT Edge
CHECK_DEADLOCK FALSE
