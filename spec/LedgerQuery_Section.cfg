SPECIFICATION Spec
