---------------------------- MODULE KBucket_Trace ----------------------------
(* Trace validation for KBucket: histories recorded from the real RouteTable over 160-bit ids    *)
(* (random and adversarially close to the local id).  Every Update / Remove event must be the    *)
(* action of KBucket with exactly the observed result and bucket structure; every NearestPeers    *)
(* answer must be what the specification computes and satisfy NearestOK; Valid is an invariant.  *)
EXTENDS KBucket, Json
Tr == ndJsonDeserialize("trace.ndjson")
VARIABLE l
tvars == <<vars, l>>

TIds == Tr[1].ids
TLocal == Tr[1].local
TK == Tr[1].k
TNone == {}

ASSUME TLCSet(1, 0)
Max(a, b) == IF a > b THEN a ELSE b
HW == TLCSet(1, Max(TLCGet(1), l))
Accepted == /\ PrintT(<<"HW", TLCGet(1) - 1>>)
            /\ TLCGet(1) = Len(Tr) + 1

Ev == Tr[l]
IsEvent(n) == l <= Len(Tr) /\ Ev.event = n /\ l' = l + 1

TInit == l = 2 /\ Init
TReset == /\ IsEvent("Reset")
          /\ buckets' = << <<>> >> /\ addr' = [p \in DOMAIN IdBits |-> 0] /\ res' = "init" /\ nops' = 0 /\ act' = [name |-> "Init"]
TUpdate == IsEvent("Update") /\ Update(Ev.p, Ev.a) /\ res' = Ev.res /\ buckets' = Ev.buckets /\ addr' = Ev.addr
TRemove == IsEvent("Remove") /\ Remove(Ev.p) /\ buckets' = Ev.buckets /\ addr' = Ev.addr /\ ~Ev.found
TNearest == /\ IsEvent("Nearest") /\ NearestPeers(Ev.t, Ev.n)
            /\ act'.out = Ev.out
            /\ NearestOKFor(buckets, Ev.t, Ev.n, Ev.out)
            /\ buckets = Ev.buckets
TNext == TReset \/ TUpdate \/ TRemove \/ TNearest
TSpec == TInit /\ [][TNext]_tvars
=============================================================================
