SPECIFICATION TSpec
CONSTANTS
  Shapes <- NoShapes
  MaxBlocks = 1000000
  Paths <- NoShapes
  Muts <- NoShapes
  PreKinds <- NoShapes
  DuringKinds <- NoShapes
  Points <- NoShapes
  W <- TW
  S <- TS
  BitsOf <- TBits
  BodyChecked = TRUE
  AllowRestart = TRUE
  AllowSync = TRUE
  FreshInits <- TFresh
INVARIANTS Coherent NoMiss IndexAgrees CacheComplete
PROPERTIES RejectedUnchanged PreExecUnchanged
CONSTRAINT HW
POSTCONDITION Accepted
CHECK_DEADLOCK FALSE
