------------------------------ MODULE SigScript ------------------------------
(***************************************************************************)
(* Building and parsing signature verification scripts (property C23).     *)
(*   ProgramFromPubKey(k)          core/program.ProgramFromPubKey          *)
(*   ProgramFromMultiPubKey(ks, m) core/program.ProgramFromMultiPubKey =   *)
(*                                 EncodeMultiPubKeyProgramInto; the same   *)
(*                                 call is types.AddressFromMultiPubKeys'   *)
(*                                 script (address = hash of the script)    *)
(*   SubmitRaw(s)                  any byte string (token sequence)         *)
(*   MutateScript(mu)              a built script altered token-wise        *)
(*   GetProgramInfo                core/program.GetProgramInfo              *)
(* Scripts are token sequences, see SigBase.                               *)
(***************************************************************************)
EXTENDS SigBase

CONSTANTS KeyLists,      \* the key lists (sequences of DISTINCT keys = ordered key sets) to build from
          Thresholds,    \* the thresholds tried with every list
          RawLen,        \* raw token scripts up to this length are submitted
          Alphabet,      \* tokens of the raw scripts
          AgainLists,    \* key lists of the builds made WHILE an earlier result is still held by the caller
          AgainThr,      \* their thresholds
          MaxHeld        \* how many earlier results the caller keeps

VARIABLES keys, m,      \* arguments of the last build ( <<>> , 0 for raw scripts)
          origin,       \* "none" | "built" | "builderr" | "raw" | "mutated"
          script,       \* the script (token sequence)
          addr,         \* AddressFromPubKey / AddressFromMultiPubKeys of the build arguments (NoAddr on error)
          parsed,       \* result of GetProgramInfo
          phase,        \* "idle" | "have" | "parsed"
          held,         \* results of earlier builds the caller still holds: sequence of [keys, m, script]
          act

vars == <<keys, m, origin, script, addr, parsed, phase, held, act>>
State == [keys |-> keys, m |-> m, origin |-> origin, script |-> script, addr |-> addr, parsed |-> parsed, phase |-> phase]

Init == /\ keys = <<>> /\ m = 0 /\ origin = "none" /\ script = <<>> /\ addr = NoAddr /\ parsed = ParseFail
        /\ phase = "idle" /\ held = <<>> /\ act = [name |-> "Init"]

ProgramFromPubKey(k) ==
    /\ phase = "idle"
    /\ keys' = <<k>> /\ m' = 1 /\ origin' = "built"
    /\ script' = BuildSingle(k) /\ addr' = AddrOfKey(k, FALSE)
    /\ phase' = "have" /\ UNCHANGED <<parsed, held>>
    /\ act' = [name |-> "ProgramFromPubKey"]

ProgramFromMultiPubKey(ks, mm) ==
    /\ phase = "idle"
    /\ keys' = ks /\ m' = mm
    /\ IF BuildMultiOK(ks, mm)
       THEN origin' = "built" /\ script' = BuildMulti(ks, mm) /\ addr' = AddrOfMulti(ks, mm)
       ELSE origin' = "builderr" /\ script' = <<>> /\ addr' = NoAddr          \* "wrong multi-sig param"
    /\ phase' = "have" /\ UNCHANGED <<parsed, held>>
    /\ act' = [name |-> "ProgramFromMultiPubKey"]

SubmitRaw(s) ==
    /\ phase = "idle"
    /\ keys' = <<>> /\ m' = 0 /\ origin' = "raw" /\ script' = s /\ addr' = NoAddr
    /\ phase' = "have" /\ UNCHANGED <<parsed, held>>
    /\ act' = [name |-> "SubmitRaw"]

\* token-level mutations of a built script
DropAt(s, i) == SubSeq(s, 1, i - 1) \o SubSeq(s, i + 1, Len(s))
DupAt(s, i)  == SubSeq(s, 1, i) \o SubSeq(s, i, Len(s))
SwapAt(s, i) == [j \in DOMAIN s |-> IF j = i THEN s[i + 1] ELSE IF j = i + 1 THEN s[i] ELSE s[j]]
Mutations(s) ==
    {[kind |-> "drop", i |-> i, v |-> 0] : i \in DOMAIN s}
    \cup {[kind |-> "dup", i |-> i, v |-> 0] : i \in DOMAIN s}
    \cup {[kind |-> "swap", i |-> i, v |-> 0] : i \in 1..(Len(s) - 1)}
    \cup {[kind |-> "num", i |-> i, v |-> v] : i \in {j \in DOMAIN s : s[j].t = "num"}, v \in {0, 1, 2, 3, 16, 17}}
    \cup {[kind |-> "numbytes", i |-> i, v |-> 0] : i \in {j \in DOMAIN s : s[j].t = "num"}}
    \cup {[kind |-> "op", i |-> Len(s), v |-> v] : v \in 1..3}
    \cup {[kind |-> "badkey", i |-> i, v |-> 0] : i \in {j \in DOMAIN s : s[j].t = "key"}}
ApplyMut(s, mu) ==
    IF mu.kind = "drop" THEN DropAt(s, mu.i)
    ELSE IF mu.kind = "dup" THEN DupAt(s, mu.i)
    ELSE IF mu.kind = "swap" THEN SwapAt(s, mu.i)
    ELSE IF mu.kind = "num" THEN [s EXCEPT ![mu.i] = Num(mu.v)]
    ELSE IF mu.kind = "numbytes" THEN [s EXCEPT ![mu.i] = NumTok(@.v, "b1")]
    ELSE IF mu.kind = "op" THEN [s EXCEPT ![mu.i] = OpTok(IF mu.v = 1 THEN "CHECKSIG" ELSE IF mu.v = 2 THEN "CHECKMULTISIG" ELSE "NOP")]
    ELSE [s EXCEPT ![mu.i] = KeyTok(@.v, "bad", "direct")]

MutateScript(mu) ==
    /\ phase = "have" /\ origin = "built" /\ held = <<>>      \* (mutations are explored for first builds only: bound)
    /\ mu \in Mutations(script)
    /\ ApplyMut(script, mu) # script
    /\ script' = ApplyMut(script, mu) /\ origin' = "mutated"
    /\ UNCHANGED <<keys, m, addr, parsed, phase, held>>
    /\ act' = [name |-> "MutateScript", mu |-> mu]

GetProgramInfo ==
    /\ phase = "have" /\ origin # "builderr"
    /\ parsed' = Parse(script)
    /\ phase' = "parsed"
    /\ UNCHANGED <<keys, m, origin, script, addr, held>>
    /\ act' = [name |-> "GetProgramInfo"]

\* the caller keeps the script it was given and builds another one (a history of builder calls on one process:
\* the builder is a function of its arguments, so nothing it returned earlier may change - a scratch buffer that is
\* recycled while a returned script still aliases it would break exactly this)
BuildOf(ks, mm) == IF Len(ks) = 1 THEN BuildSingle(ks[1]) ELSE BuildMulti(ks, mm)
BuildAgain(ks, mm) ==
    /\ phase \in {"have", "parsed"} /\ origin = "built" /\ Len(held) < MaxHeld
    /\ Len(ks) > 1 /\ BuildMultiOK(ks, mm)
    /\ held' = Append(held, [keys |-> keys, m |-> m, script |-> script])
    /\ keys' = ks /\ m' = mm /\ origin' = "built" /\ script' = BuildMulti(ks, mm) /\ addr' = AddrOfMulti(ks, mm)
    /\ phase' = "have" /\ UNCHANGED parsed
    /\ act' = [name |-> "BuildAgain"]

Other == GetProgramInfo \/ (phase = "have" /\ origin = "built" /\ held = <<>> /\ \E mu \in Mutations(script) : MutateScript(mu))

Next == \/ (phase = "idle" /\ \/ \E ks \in KeyLists : (Len(ks) = 1 /\ ProgramFromPubKey(ks[1]))
                              \/ \E ks \in KeyLists, mm \in Thresholds : ProgramFromMultiPubKey(ks, mm)
                              \/ \E n \in 0..RawLen : \E s \in [1..n -> Alphabet] : SubmitRaw(s))
        \/ Other
        \/ \E ks \in AgainLists, mm \in AgainThr : BuildAgain(ks, mm)
Spec == Init /\ [][Next]_vars

-----------------------------------------------------------------------------
(* properties (C23) *)
\* permutations of a sequence of distinct keys = all sequences with the same range and length
SameSet(a, b) == Len(a) = Len(b) /\ Range(a) = Range(b)

\* a built script parses back to the sorted key set and the threshold
RoundTrip == (phase = "parsed" /\ origin = "built") =>
             /\ parsed.ok
             /\ KeyVals(parsed.keys) = SortKeys(keys)
             /\ parsed.m = m
\* the script (hence the account address) does not depend on the order the keys were given in
OrderFree == (origin = "built" /\ Len(keys) > 1) =>
             \A other \in KeyLists : SameSet(other, keys) => (BuildMultiOK(other, m) /\ AddrOfMulti(other, m) = addr)
\* every script the caller still holds is what the builder returned for its arguments, whatever was built since,
\* and still parses back to its own keys and threshold
HeldStable == \A i \in DOMAIN held :
             /\ held[i].script = BuildOf(held[i].keys, held[i].m)
             /\ LET p == Parse(held[i].script) IN p.ok /\ KeyVals(p.keys) = SortKeys(held[i].keys) /\ p.m = held[i].m
\* invalid thresholds / key counts are rejected, by the builder ...
BuildRejectsInvalid == (origin = "built" /\ Len(keys) > 1) => MultiParamOK(m, Len(keys))
BuildAcceptsValid   == (origin = "builderr") => ~MultiParamOK(m, Len(keys))
\* ... and by the parser: whatever it accepts has 1 <= m <= n <= 16 (n >= 2 behind CHECKMULTISIG)
ParseRejectsInvalid == (phase = "parsed" /\ parsed.ok) =>
             /\ 1 <= parsed.m /\ parsed.m <= Len(parsed.keys) /\ Len(parsed.keys) <= MaxKeysInScript
             /\ (script[Len(script)].enc = "CHECKMULTISIG" => Len(parsed.keys) > 1)
             /\ (script[Len(script)].enc = "CHECKSIG" => Len(parsed.keys) = 1 /\ parsed.m = 1)
=============================================================================
