SPECIFICATION TSpec
CONSTANTS
  Txs <- TxAll
  HashOf <- HashAll
  BadSig <- BadSigAll
  LowGas <- LowGasAll
  Price <- PriceAll
  Drains <- DrainsAll
  SubmitTxs <- TxAll
  StaleTxs <- TxAll
  Kinds <- KindsHN
  Blocks <- BlocksS
  VLists <- VListsS
  ByCounts <- ByCountTF
  QuietVerify = FALSE
  Cap <- TCap
  Lim <- TLim
  MaxTx <- TMaxTx
  PreExec <- TPreExec
  H0 <- TH0
  MaxHeight <- TMaxH
  MaxLag = 99
  MaxFly = 99
  MaxPerTx = 99
  InvertedExpiry <- TInv
  CheckThenActCap <- TCta
  SlotOverReturn <- TSor
  SlotLostOnDup <- TSld
VIEW tview
INVARIANTS PoolSound Unique
CONSTRAINT HW
POSTCONDITION Accepted
CHECK_DEADLOCK FALSE
