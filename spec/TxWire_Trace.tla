---------------------------- MODULE TxWire_Trace ----------------------------
(* Trace validation for C19: a log of TransactionFromRawBytes / Deserialization calls on seeded random mutations  *)
(* of valid transactions (harness TestVerifTxTrace).  Every event must agree with TxWireOps!FromRaw: rejected     *)
(* inputs are rejected, accepted ones consume the same bytes and re-serialize (ToArray, and field by field) to    *)
(* exactly those bytes; no call panics.  For accepted Ontology transactions the length of the hash preimage       *)
(* (unsigned prefix) is printed so that the check recomputes the hash independently.                              *)
EXTENDS TxWire, Json
Tr == ndJsonDeserialize("trace.ndjson")
VARIABLE l
tvars == <<vars, l>>

ASSUME TLCSet(1, 0)
Max(a, b) == IF a > b THEN a ELSE b
HW == TLCSet(1, Max(TLCGet(1), l))
Accepted == /\ PrintT(<<"HW", TLCGet(1) - 1>>)
            /\ TLCGet(1) = Len(Tr) + 1
Ev == Tr[l]

Agree(v, n, ok, rn) == /\ v = "reject" => ~ok
                       /\ v = "accept" => ok
                       /\ ok => rn = n
Conforms(e, r) == /\ e.panic = "" /\ e.embpanic = ""
                  /\ Agree(r.v, IF r.v = "reject" THEN 0 ELSE r.n, e.ok, e.n)
                  /\ e.ok => (e.rawok /\ e.toarrok /\ e.reencok)
                  /\ Agree(r.embv, r.embn, e.embok, e.embn)
                  /\ (e.ok /\ e.embok /\ r.embn = e.n) => e.embhash = e.hash
Note(e, r) == (r.v = "accept") => PrintT(<<"NOTE", ToJson([i |-> l, k |-> Len(r.hashterm)])>>)

TInit == l = 1 /\ call = [kind |-> "Init"] /\ res = [v |-> ""]
TNext == /\ l <= Len(Tr) /\ Ev.event = "FromRaw" /\ l' = l + 1
         /\ LET r == Outcome(Ev.raw) IN Conforms(Ev, r) /\ Note(Ev, r) /\ res' = [v |-> r.v]
         /\ call' = [kind |-> "FromRaw"]
TSpec == TInit /\ [][TNext]_tvars
=============================================================================
