--------------------------- MODULE LedgerQuery_MC ---------------------------
EXTENDS LedgerQuery, LQBits, Json

Sh(n, k, l) == [name |-> n, ntx |-> k, logs |-> l]
\* C39: an empty block and a block with two transactions
ShapesC39 == {Sh("e", 0, {}), Sh("b", 2, {})}
ShapesC39t == {Sh("e", 0, {}), Sh("a", 1, {}), Sh("c", 3, {})}
\* C40: 0..3 transactions
ShapesC40 == {Sh("n0", 0, {}), Sh("n2", 2, {})}
ShapesC40t == {Sh("n0", 0, {}), Sh("n1", 1, {}), Sh("n2", 2, {}), Sh("n3", 3, {})}
\* C42
ShapesC42 == {Sh("e", 0, {}), Sh("b", 2, {})}
\* C43: 0..3 logs from 3 addresses x 3 topics (one EVM call per log)
ShapesC43 == {Sh("l0", 0, {}), Sh("l1", 1, {<<"a1", "t1">>}), Sh("l2", 2, {<<"a2", "t2">>, <<"a1", "t3">>}),
              Sh("l3", 3, {<<"a3", "t1">>, <<"a3", "t3">>, <<"a2", "t1">>})}
ShapesC43t3 == {Sh("l0", 0, {}), Sh("l0f", 1, {}), Sh("l3", 3, {<<"a3", "t1">>, <<"a3", "t3">>, <<"a2", "t1">>})}
\* a shape name ending in "f": the block additionally carries a FAILING EVM transaction (its fee log is still an event)
ShapesC43q == {Sh("l0", 0, {}), Sh("l0f", 1, {}), Sh("l2", 2, {<<"a2", "t2">>, <<"a1", "t3">>})}

Fields == {"height", "prev", "ts", "broot", "troot", "body", "sigs", "keepers", "sroot"}
Alt(f) == CASE f = "height" -> {"stale", "skip"}
            [] f = "prev" -> {"old", "unknown"}
            [] f = "ts" -> {"eq", "lt"}
            [] f = "broot" -> {"bad"}
            [] f = "troot" -> {"bad", "badc", "zero", "zeroc"}
            [] f = "body" -> {"drop", "alter", "dup", "evmnonce"}
            [] f = "sigs" -> {"none", "few", "foreign", "dupsig", "stale"}
            [] f = "keepers" -> {"foreign", "subset"}
            [] f = "sroot" -> {"bad"}
OnlyValid == {ValidMut}
Single == {ValidMut} \cup {[ValidMut EXCEPT ![f] = v] : <<f, v>> \in {<<f, v>> \in Fields \X UNION {Alt(f) : f \in Fields} : v \in Alt(f)}}
Double == Single \cup UNION {{[m EXCEPT ![f] = v] : <<f, v>> \in {<<f, v>> \in Fields \X UNION {Alt(g) : g \in Fields} :
                                                          v \in Alt(f) /\ m[f] = ValidMut[f]}} : m \in Single}

AllPaths == {"wire", "mem", "exec"}
WireOnly == {"wire"}
NoKinds == {}
KindsC42 == {"native-transfer", "native-transfer-fail", "neovm-deploy", "neovm-storage-put", "neovm-badscript", "evm-transfer", "evm-create",
             "evm-call-log", "evm-transfer-free", "evm-msg-call", "evm-msg-create", "batch-atomic", "batch-plain"}
DuringQuick == {"native-transfer", "evm-call-log", "evm-msg-call"}
DuringAll == KindsC42 \ {"batch-atomic"}    \* the atomic batch takes the block-saving lock and cannot run inside a commit
PointsQuick == {"staged", "evt"}
PointsAll == {"staged", "blk", "evt", "st", "cur"}
BothFresh == {TRUE, FALSE}
OnlyFresh == {TRUE}

StateOut == [chain |-> Names(chain), hashAt |-> hashAt,
             hdrOf |-> {<<x, hdrOf[x]>> : x \in DOMAIN hdrOf},
             bodyOf |-> {<<x, bodyOf[x]>> : x \in DOMAIN bodyOf},
             txAt |-> {<<x, txAt[x]>> : x \in DOMAIN txAt},
             blkCur |-> blkCur, bloomAt |-> bloomAt,
             bitIdx |-> [s \in 1..Len(bitIdx) |-> {<<b, bitIdx[s][b]>> : b \in DOMAIN bitIdx[s]}],
             fstart |-> fstart, stApplied |-> stApplied, evTx |-> evTx, evCur |-> evCur,
             memCur |-> memCur,
             hidx |-> [first |-> hidx.first, last |-> hidx.last, m |-> {<<x, hidx.m[x]>> : x \in DOMAIN hidx.m}],
             bcache |-> {<<x, bcache[x]>> : x \in DOMAIN bcache}, hcache |-> hcache, fmem |-> fmem, fresh |-> fresh, halt |-> halt]
Edge == PrintT(<<"EDGE", ToJson([from |-> StateOut, act |-> act', to |-> StateOut'])>>)
InitOut == (TLCGet("level") = 1) => /\ PrintT(<<"INIT", ToJson(StateOut)>>)
                                    /\ PrintT(<<"NOTE", ToJson([shapes |-> Shapes])>>)
=============================================================================
