--------------------------- MODULE VBFTPool_MC ---------------------------
(* C31: every sequence of proposal / endorse / commit messages (within the bounds of the .cfg) is fed into one pool.
   Messages may be forged: any committer / endorser index may be claimed, with signatures that do not verify
   (ghost flags ok / cok / pok = FALSE); at most MaxForged delivered messages contain forged material.
   As-coded configuration: every edge is exported and replayed on a real BlockPool; the State record carries the model's
   commitDone result set, the valid signer sets and the CommitSound verdict for comparison with the real pool.
   Design configuration (switches TRUE): CommitSound is an invariant. *)
EXTENDS VBFTPool, Json, VBFTConst   \* VBFTConst: thresholds and roles extracted from the real code (generated)

Proposers1 == {1}
Proposers2 == {1, 2}
CcNone == {FALSE}
CcBoth == BOOLEAN

CONSTANTS Proposers,     \* proposers whose blocks messages may refer to
          MaxProp, MaxEnd, MaxCom, MaxForged, MaxClaims, ForgePok,
          CcChoices,     \* endorse messages with / without the endorser's cross-chain-msg signature (an attribute the pool's
                         \* duplicate check must ignore: the same endorsement is one entry whatever extra signatures it carries)
          Canonical      \* TRUE: reduced universe for the larger N (non-empty blocks only, endorse messages in increasing
                         \* endorser order, commit messages claim an initial segment of the non-proposer peers)

VARIABLES pool, cnt, act
vars == <<pool, cnt, act>>
view == <<pool, cnt>>

ClaimSets(c) == IF Canonical
                THEN {S \in {{i \in Peers \ Proposers : i <= k /\ i # c} : k \in 0..N} : Cardinality(S) <= MaxClaims}
                ELSE {S \in SUBSET (Peers \ {c}) : Cardinality(S) <= MaxClaims}
Emp == IF Canonical THEN {FALSE} ELSE BOOLEAN
LastEndorser == LET D == {i \in Peers \ Proposers : Len(pool.esigs[i]) > 0} IN IF D = {} THEN 0 ELSE CHOOSE i \in D : \A j \in D : j <= i
CommitMsgs ==
  {[c |-> c, p |-> p, e |-> e, cok |-> TRUE, pok |-> TRUE, es |-> {[i |-> i, ok |-> TRUE] : i \in S}]
     : c \in Peers, p \in Proposers, e \in Emp, S \in UNION {ClaimSets(c) : c \in Peers}}
ForgedCommitMsgs ==
  {[c |-> c, p |-> p, e |-> e, cok |-> cok, pok |-> pok, es |-> {[i |-> i, ok |-> FALSE] : i \in S}]
     : c \in Peers, p \in Proposers, e \in Emp, cok \in BOOLEAN, pok \in (IF ForgePok THEN BOOLEAN ELSE {TRUE}),
       S \in UNION {ClaimSets(c) : c \in Peers}}
IsForgedCommit(m) == ~m.cok \/ ~m.pok \/ \E x \in m.es : ~x.ok

Init == pool = EmptyPool /\ cnt = [prop |-> 0, end |-> 0, com |-> 0, forged |-> 0] /\ act = [name |-> "Init"]

FeedProposal(p) ==
  /\ cnt.prop < MaxProp
  /\ pool' = NewProposal(pool, p, 0)
  /\ cnt' = [cnt EXCEPT !.prop = @ + 1]
  /\ act' = [name |-> "FeedProposal", p |-> p, v |-> 0]

FeedEndorse(i, p, e, ok, cc) ==
  /\ cnt.end < MaxEnd
  /\ Canonical => (i > LastEndorser /\ i \notin Proposers)
  /\ ok \/ cnt.forged < MaxForged
  /\ pool' = NewEndorse(pool, i, p, e, ok)
  /\ cnt' = [cnt EXCEPT !.end = @ + 1, !.forged = IF ok THEN @ ELSE @ + 1]
  /\ act' = [name |-> "FeedEndorse", i |-> i, p |-> p, v |-> 0, e |-> e, ok |-> ok, cc |-> cc]

FeedCommit(m) ==
  /\ cnt.com < MaxCom
  /\ m.c \notin {x.i : x \in m.es}
  /\ ~IsForgedCommit(m) \/ cnt.forged < MaxForged
  /\ pool' = NewCommit(pool, m)
  /\ cnt' = [cnt EXCEPT !.com = @ + 1, !.forged = IF IsForgedCommit(m) THEN @ + 1 ELSE @]
  /\ act' = [name |-> "FeedCommit", c |-> m.c, p |-> m.p, v |-> 0, e |-> m.e, cok |-> m.cok, pok |-> m.pok, es |-> m.es]

Next ==
  \/ \E p \in Proposers : FeedProposal(p)
  \/ \E i \in Peers, p \in Proposers, e \in Emp, ok \in BOOLEAN, cc \in CcChoices : FeedEndorse(i, p, e, ok, cc)
  \/ \E m \in CommitMsgs \cup ForgedCommitMsgs : FeedCommit(m)
Spec == Init /\ [][Next]_vars

Results == CommitDoneResults(pool)
Judged == {[p |-> r.p, e |-> r.e, valid |-> ValidSigners(pool, r.p, r.e), sound |-> Sound(pool, r)] : r \in Results}
State == [pool |-> pool, cnt |-> cnt, results |-> Judged, viaMsgs |-> ViaMsgs(pool),
          ed |-> EndorseDoneResults(pool), ef |-> EndorseFailed(pool)]
Edge == PrintT(<<"EDGE", ToJson([from |-> State, act |-> act', to |-> State'])>>)
InitOut == (TLCGet("level") = 1) => PrintT(<<"INIT", ToJson(State)>>)

TypeOK == /\ pool.props \subseteq [p : Peers, v : {0}]
          /\ Len(pool.cmsgs) <= MaxCom
Inv_CommitSound == CommitSound(pool)
=============================================================================
