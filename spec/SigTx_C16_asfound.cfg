SPECIFICATION SpecC16q
CONSTANTS
  TxSpace <- Small16
  EthKeys <- NoKeys
  MaskByPosition = TRUE
  RawScriptFallback = TRUE
  MutClasses <- MutAll
  PreOps <- PreAll
  SkipIfSignedAddr = FALSE
  AddrBySigCount = FALSE
INVARIANTS SoundUpToDupKeys MutatedRejected
CHECK_DEADLOCK FALSE
