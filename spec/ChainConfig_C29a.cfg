SPECIFICATION Spec
CONSTANTS
  Pools <- PoolsC29a
  Confs <- ConfsC29a
  Hashes <- HashOne
  Vrfs <- Vrfs3q
  ListsOf <- CanonOnly
  Acts <- ActsC29
VIEW view
INVARIANTS OrderFree ConfigInv WellFormedInv DomainInv
CONSTRAINT InitOut
ACTION_CONSTRAINT EdgeSel
CHECK_DEADLOCK FALSE
