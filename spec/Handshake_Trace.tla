--------------------------- MODULE Handshake_Trace ---------------------------
(* Trace validation: schedules chosen by the harness (TestVerifX03Trace, random, seeded) on REAL NetServer      *)
(* instances must be behaviours of Handshake, and what the harness observed after every action (neighbour tables,*)
(* connect_controller records, the call every goroutine is blocked in, closed sockets, messages in flight) must   *)
(* be the model's post-state.  props/X03.py renames real addresses / message types into the model's vocabulary.   *)
(* A Reset event starts a new walk and names its scenario.                                                        *)
EXTENDS Handshake_MC
Tr == ndJsonDeserialize("trace.ndjson")
VARIABLE l
tvars == <<vars, l>>

ASSUME TLCSet(1, 0)
Max(a, b) == IF a > b THEN a ELSE b
HW == TLCSet(1, Max(TLCGet(1), l))
Accepted == /\ PrintT(<<"HW", TLCGet(1) - 1>>)
            /\ TLCGet(1) = Len(Tr) + 1

Ev == Tr[l]
ToSet(s) == {s[i] : i \in DOMAIN s}
IsEvent(n) == l <= Len(Tr) /\ Ev.act.name = n /\ l' = l + 1

GateOf(ph) == IF ph = "dial" THEN "D" ELSE IF ph \in WritePh THEN "W" ELSE IF ph \in ReadPh \cup {"est"} THEN "R" ELSE ""
RAddrN(c, n) == IF Cl[c] = n THEN Addr[Sv[c]] ELSE Eph[c]      \* remote address of connection c as node n sees it
Wire2(q) == [j \in 1..Len(q) |-> [t |-> q[j].t, ok |-> q[j].ok]]

ObsOK ==
    /\ Ev.res = act'.res
    /\ \A n \in DOMAIN Ev.nodes :
         /\ {<<e.id, e.c>> : e \in ToSet(Ev.nodes[n].nbr)} = {<<i, nbr'[n][i].c>> : i \in {j \in AllIds : nbr'[n][j].c # None}}
         /\ {<<e.id, e.addr>> : e \in ToSet(Ev.nodes[n].peers)}
               = {<<i, RAddrN(cpeers'[n][i], n)>> : i \in {j \in AllIds : cpeers'[n][j] # None}}
         /\ ToSet(Ev.nodes[n].inb) = inb'[n] /\ ToSet(Ev.nodes[n].outb) = outb'[n]
         /\ ToSet(Ev.nodes[n].lsn) = lsn'[n] /\ ToSet(Ev.nodes[n].cing) = cing'[n]
         /\ Ev.nodes[n].own = own'[n]
         /\ Ev.nodes[n].cnt = Cardinality({j \in AllIds : nbr'[n][j].c # None})
    /\ \A c \in allowed' :
         /\ Ev.ends[c].c.gate = GateOf(cp'[c]) /\ Ev.ends[c].s.gate = GateOf(sp'[c])
         /\ Ev.ends[c].c.hs = (cp'[c] \in {"dial"} \cup WritePh \cup ReadPh) /\ Ev.ends[c].s.hs = (sp'[c] \in WritePh \cup ReadPh)
         /\ Ev.ends[c].c.closed = (made'[c] /\ cp'[c] \in {"fail", "closed"}) /\ Ev.ends[c].s.closed = (sp'[c] \in {"fail", "closed"})
         /\ Ev.ends[c].c.made = made'[c]
         /\ Ev.q[c].cs = Wire2(qcs'[c]) /\ Ev.q[c].sc = Wire2(qsc'[c])
         /\ Ev.brk[c] = brk'[c]

TInit == /\ l = 2 /\ Init
TReset == /\ IsEvent("Reset")
          /\ allowed' = ToSet(Ev.allowed) /\ nf' = Ev.nf0
          /\ cp' = [c \in Conns |-> "idle"] /\ sp' = [c \in Conns |-> "idle"]
          /\ made' = [c \in Conns |-> FALSE] /\ brk' = [c \in Conns |-> FALSE]
          /\ qcs' = [c \in Conns |-> <<>>] /\ qsc' = [c \in Conns |-> <<>>]
          /\ nbr' = [n \in Nodes |-> [i \in AllIds |-> NoEnt]]
          /\ inb' = [n \in Nodes |-> {}] /\ outb' = [n \in Nodes |-> {}] /\ lsn' = [n \in Nodes |-> {}]
          /\ cing' = [n \in Nodes |-> {}]
          /\ cpeers' = [n \in Nodes |-> [i \in AllIds |-> None]]
          /\ own' = [n \in Nodes |-> ""]
          /\ steps' = [c \in Conns |-> [c |-> 0, s |-> 0]]
          /\ act' = [name |-> "Init", c |-> "", e |-> "", res |-> ""]

ConnStep(c) == \/ (IsEvent("CBegin") /\ CBegin(c))
               \/ (IsEvent("CDial") /\ CDial(c))
               \/ (IsEvent("CSend") /\ CSend(c))
               \/ (IsEvent("CRecv") /\ CRecv(c))
               \/ (IsEvent("SAccept") /\ SAccept(c))
               \/ (IsEvent("SRecv") /\ SRecv(c))
               \/ (IsEvent("SSend") /\ SSend(c))
               \/ (IsEvent("DialFail") /\ DialFail(c))
               \/ (IsEvent("Break") /\ Break(c))
EndStep(c, e) == \/ (IsEvent("RxEOF") /\ RxEOF(c, e))
                 \/ (IsEvent("PeerClose") /\ PeerClose(c, e))
                 \/ (IsEvent("Timeout") /\ Timeout(c, e))
DirStep(c, d) == \/ (IsEvent("Junk") /\ Junk(c, d))
                 \/ (IsEvent("BadMagic") /\ BadMagic(c, d))

TStep == /\ l <= Len(Tr)
         /\ \E c \in Conns :
              /\ Ev.act.c = c
              /\ \/ ConnStep(c)
                 \/ \E e \in {"c", "s"} : (Ev.act.e = e /\ EndStep(c, e))
                 \/ \E d \in {"cs", "sc"} : (Ev.act.e = d /\ DirStep(c, d))
         /\ UNCHANGED allowed
         /\ ObsOK
TNext == TReset \/ TStep
TSpec == TInit /\ [][TNext]_tvars
=============================================================================
