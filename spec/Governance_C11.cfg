SPECIFICATION Spec
CONSTANTS
  GenPeers <- MC_GenPeers
  CandPeers <- MC_Cand1
  Addrs <- MC_Addrs
  OwnerOf <- MC_OwnerOf
  PkRank <- MC_PkRank
  K = 7
  PosLimit = 20
  Penalty = 5
  A = 50
  B = 50
  MinInitStake = 10000
  MinAuth = 500
  DappFee = 0
  SplitNum = 49
  HasDapp = FALSE
  GenesisPos <- MC_GenesisPos
  GenesisMax = 100000
  Fund <- MC_Fund
  RegPos <- MC_RegPos1
  AuthPos <- MC_AuthPos1
  UnAuthPos <- MC_UnAuthPos
  WdPos <- MC_WdPos
  InitDelta <- MC_InitDelta
  FeeVals <- MC_FeeVals1
  CostVals <- MC_CostVals1
  MaxVals <- MC_MaxVals
  Authorizers <- MC_Authorizers
  AuthTargets <- MC_Targets3
  OpTargets <- MC_Targets3
  Acts <- ActsAll
  WithInvalid = TRUE
  MaxOps = 2
VIEW view
INVARIANTS TypeOK Backed NoOverWithdraw TotalPosOK Withdrawable NoWrap
PROPERTIES SplitBounded
CONSTRAINT XInitOut
ACTION_CONSTRAINT XEdge
CHECK_DEADLOCK FALSE
