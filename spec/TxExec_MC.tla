----------------------------- MODULE TxExec_MC -----------------------------
EXTENDS TxExec, Json
PayersV == {"P", "Q"}
KeysV == {"k"}
ValsV == {"x"}
Vals2V == {"x", "y"}
PricesV == {0, 1}
LimitsV == {1, 5}
CodeGasV == [s \in {"small", "huge"} |-> IF s = "small" THEN 0 ELSE 4]
FeesV == {0, 2, 3, 5}
InitOngV == [a \in PayersV \cup {"GOV", "SINK"} |-> IF a = "P" THEN 5 ELSE IF a = "Q" THEN 1 ELSE 0]
Edge == PrintT(<<"EDGE", ToJson([from |-> State, act |-> act', to |-> State'])>>)
InitOut == (TLCGet("level") = 1) => PrintT(<<"INIT", ToJson(State)>>)
=============================================================================
