SPECIFICATION Spec
CONSTANTS
  AddrNegCountPanic = TRUE
  Level = 1
VIEW view
PROPERTIES HeaderChecksOK RoundTripOK IdempotentOK ReproOK
CONSTRAINT InitOut
ACTION_CONSTRAINT Edge
CHECK_DEADLOCK FALSE
