SPECIFICATION Spec
CONSTANTS
  CksTab <- TabGen
  Cases <- CasesQ
PROPERTIES AllOK
ACTION_CONSTRAINT Row
CHECK_DEADLOCK FALSE
