SPECIFICATION Spec
CONSTANTS
  CksTab <- TabGen
  Cases <- CasesQ
PROPERTIES AllOK Pure
ACTION_CONSTRAINT Row
CHECK_DEADLOCK FALSE
